"""Registry of harness runs per property (bounds are the harness parameters)."""

WS_NOTE = ("websocketTransport.Send/Receive/Close run from their SSA over a model of gorilla's websocket.Conn (v1.4.2: WriteJSON = one write of the message armed with the *stored* write deadline, sticky read/write errors, SetReadDeadline straight to the socket, concurrent writers panic); natively the witnesses run the real gorilla code over an adapter connection. ")

COMMON_ASSUMPTIONS = [
    "symbolic strings are byte vectors of bounded capacity with 7-bit bytes (multi-byte UTF-8 is outside the claim)",
    "encoding/json is replaced by the engine's model of its documented dispatch (DESIGN.md 2.5); lime-go's own "
    "MarshalJSON/UnmarshalJSON/MarshalText/UnmarshalText/populate/toRawEnvelope are executed from their SSA",
    "fmt.Sprintf/Errorf, strings.Split/HasPrefix, errors.New/Is, reflect.ValueOf/IsNil/IsZero/Len/Index/Interface, "
    "sync.Mutex/RWMutex/Once/WaitGroup, context.*, time.Now/Add/After, uuid.New/NewString/Parse are engine stubs with "
    "the contracts of DESIGN.md 2.6; error texts are opaque",
    "every result holds for all values within the stated bounds only; loops are unrolled with an unwinding assertion",
    "the SSA->SMT executor itself is trusted; it is validated by replaying solver witnesses natively on every run",
]

NOTES = ("All checks: bin/check <ID> quick|thorough. Exit 0 = held within the stated bounds (listed known findings are printed as "
         "KNOWN-FINDING), 1 = natively reproduced violation not listed in known_findings.json, 2 = inconclusive (unsupported construct, "
         "solver unknown, unwinding bound exceeded, engine/native mismatch).")

NOT_APPLICABLE = {}

CODEC_OUT = ["generic-JSON content beyond flat string-valued objects (handled by encoding/json alone)",
             "URI text form: net/url is modelled as an opaque token with String(Parse(s)) == s",
             "chat/resources.go document types (time.Time, float32, net/url inside the standard library)",
             "multi-byte UTF-8 and strings longer than the capacity bound",
             "fidelity of the encoding/json dispatch model (validated by native replay of witnesses, not proved)"]

# configurations that share no encryption option with the transport (assumed away by C07/C09)
INSANE = [{"enccfg": 0, "transport": 1}, {"enccfg": 1, "transport": 2}]

CHECKS = {
    "C01": {
        "level_text": "All five envelope kinds are built with symbolic ids, node addresses, metadata, enum members, reasons, option lists, "
                      "authentication payloads and documents (text, JSON object, ping, registered custom type, container, collection, nested), "
                      "pushed through the real toRawEnvelope/MarshalJSON/MarshalText code and back through both decode paths "
                      "(typed UnmarshalJSON and rawEnvelope.toEnvelope); field-wise equality and kind preservation are SMT verdicts. "
                      "Text forms (Node, Identity, MediaType, the three enums) are proved to parse back for every string within the capacity.",
        "level_note": "Trusted: SSA->SMT executor, encoding/json dispatch model, z3. Bounds: string capacity 2/3 (text forms 6/10), metadata <= 1/2, "
                      "collection items <= 1/2, document nesting 1/2-3; well-formedness assumptions are listed in the evidence.",
        "runs": [
            {"harness": "HarnessStringsModel", "grid": {"fn": [0, 1, 2, 3, 4, 5, 6, 7, 8, 9]}, "params": {"cap": 4}, "reach": ["strmodel:compared"]},
            {"harness": "HarnessStdModel", "grid": {"fn": [0, 1, 2, 3]}, "params": {"sched": 1}, "reach": ["stdmodel:compared"], "threads": True},
            # translator validation: the repository's own JSON fixtures, engine digest == native digest
            {"harness": "HarnessFixtures", "grid": {"from": [0, 8, 16, 24, 32, 40, 48, 56]}, "params": {"count": 8},
             "reach": ["fixtures:done"], "compare": "RT", "replay_reach": 1},
            {"harness": "HarnessC01TextForms", "grid": {"form": [0, 1, 2, 3, 4, 5]}, "params": {"tcap": 6}, "tier": "quick"},
            {"harness": "HarnessC01TextForms", "grid": {"form": [0, 1, 2]}, "params": {"tcap": 10}, "tier": "thorough", "qtimeout": 300},
            {"harness": "HarnessC01Message", "grid": {"doc": [0, 1, 2, 3, 4, 5, 6, 7]}, "params": {"cap": 2, "depth": 1},
             "reach": ["c01:message-built", "c01:message-roundtrip-done"], "tier": "quick"},
            {"harness": "HarnessC01Message", "grid": {"doc": [0, 1, 2, 3, 4, 5], "depth": [2, 3]}, "params": {"cap": 3, "items": 2, "meta": 2},
             "reach": ["c01:message-built", "c01:message-roundtrip-done"], "tier": "thorough"},
            {"harness": "HarnessC01Notification", "params": {"cap": 2}, "reach": ["c01:notification-roundtrip-done"], "tier": "quick"},
            {"harness": "HarnessC01Notification", "params": {"cap": 4, "meta": 2}, "reach": ["c01:notification-roundtrip-done"], "tier": "thorough"},
            {"harness": "HarnessC01Response", "grid": {"doc": [0, 1, 2, 3, 4, 5, 6]}, "params": {"cap": 2, "depth": 1},
             "reach": ["c01:response-roundtrip-done"], "tier": "quick"},
            {"harness": "HarnessC01Response", "grid": {"doc": [0, 1, 2, 3, 4, 5, 6]}, "params": {"cap": 3, "depth": 2, "items": 2},
             "reach": ["c01:response-roundtrip-done"], "tier": "thorough"},
            {"harness": "HarnessC01Request", "grid": {"doc": [0, 1, 2, 3, 4, 5, 6]}, "params": {"cap": 2, "depth": 1},
             "reach": ["c01:request-roundtrip-done"], "tier": "quick"},
            {"harness": "HarnessC01Request", "grid": {"doc": [0, 1, 2, 3, 4, 5, 6]}, "params": {"cap": 3, "depth": 2, "items": 2},
             "reach": ["c01:request-roundtrip-done"], "tier": "thorough"},
            {"harness": "HarnessC01Session", "grid": {"lists": [0, 1, 2], "auth": [0, 1, 2, 3, 4, 5, 6]}, "params": {"cap": 2},
             "reach": ["c01:session-roundtrip-done"], "tier": "quick"},
            {"harness": "HarnessC01Session", "grid": {"lists": [0, 1, 2], "auth": [0, 1, 2, 3, 4, 5, 6]}, "params": {"cap": 3, "meta": 2},
             "reach": ["c01:session-roundtrip-done"], "tier": "thorough"},
        ],
        "bounds": {"quick": {"string_cap": 2, "text_form_cap": 6, "metadata_entries": 1, "collection_items": 1, "doc_depth": 1},
                   "thorough": {"string_cap": 3, "text_form_cap": 10, "metadata_entries": 2, "collection_items": 2, "doc_depth": 3}},
        "out": CODEC_OUT,
        "assumptions": ["well-formedness: identity name/domain contain neither '@' nor '/', instance no '/', media type/subtype neither '/' nor '+', "
                        "suffix no '+'; Message.Type == Content.MediaType(); command Type set iff Resource set; enum fields hold members; "
                        "nil vs empty map identified; response commands carry a status; present optional nodes differ from the zero node"],
    },
    "C02": {
        "level_text": "Untrusted input is a valid encoding of every envelope/document shape (14 base templates, symbolic leaves) with up to k arbitrary "
                      "structural mutations (delete, null, wrong JSON type, empty object/array, array wrap, alien key) at any tree position, decoded through "
                      "the five typed decoders and the transport path (rawEnvelope.toEnvelope) by executing lime-go's real UnmarshalJSON/populate/"
                      "UnmarshalDocument/UnmarshalText code symbolically. Verdicts: no reachable panic; every accepted envelope re-encodes and the "
                      "re-encoding decodes (typed and transport path) to a deep-equal envelope.",
        "level_note": "Trusted: SSA->SMT executor, encoding/json dispatch model (null/pointer/interface/Unmarshaler rules probed against the real library), z3. "
                      "Bounds: k = 1 (quick) / 2 (thorough) mutations, string capacity 2 / 3. Byte-level malformed JSON, truncation and concatenation "
                      "are rejected inside encoding/json before lime-go code runs and are outside the claim.",
        "runs": [
            {"harness": "HarnessC02Decode", "grid": {"base": list(range(14)), "target": [0, 1, 2, 3, 4, 5]}, "params": {"k": 1, "cap": 2},
             "reach": ["c02:input-built"], "tier": "quick", "replay_reach": 1},
            {"harness": "HarnessC02Decode", "grid": {"base": list(range(14)), "target": [0, 1, 2, 3, 4, 5]}, "params": {"k": 2, "cap": 3},
             "reach": ["c02:input-built"], "tier": "thorough", "replay_reach": 1},
        ],
        "bounds": {"quick": {"mutations": 1, "string_cap": 2}, "thorough": {"mutations": 2, "string_cap": 3}},
        "out": CODEC_OUT + ["inputs that are not well-formed JSON (handled by encoding/json)", "inputs more than k mutations away from a valid encoding"],
        "assumptions": ["nil and empty metadata/option lists are identified when comparing envelopes"],
    },
    "C03": {
        "level_text": "The real ServerChannel.EstablishSession/negotiateSession/authenticateSession/FailSession are executed symbolically against a "
                      "scripted transport whose every Receive returns an arbitrary session envelope (symbolic state, id, node, options, scheme, "
                      "credentials), a data envelope or an error, with symbolic outcomes of the Authenticate and Register callbacks (granted role, "
                      "unknown/empty role with and without round trip, error) and symbolic server configurations. At return, establishment "
                      "(state or emitted established envelope) implies a granting Authenticate call on the identity/scheme/credentials of the latest "
                      "received session under an offered scheme, followed by exactly one successful Register whose node is announced.",
        "level_note": "Trusted: SSA->SMT executor, z3; the decode side (bytes -> envelopes) is C02's claim and enters here as 'arbitrary envelope'. "
                      "Bounds: script depth 4 (quick) / 6 (thorough) receives, i.e. up to 1 / 3 authentication round trips; string capacity 2.",
        "runs": [
            {"harness": "HarnessC03Server", "grid": {"enccfg": [0, 1, 2, 3], "transport": [0, 1, 2]}, "params": {"depth": 4},
             "reach": ["c03:handshake-returned"], "tier": "quick"},
            {"harness": "HarnessC03BuildAuth", "grid": {"scheme": [0, 1, 2, 3, 4, 5]}, "reach": ["c03:builder-authenticate-returned"]},
            {"harness": "HarnessC03Server", "grid": {"enccfg": [0, 1, 2, 3], "transport": [0, 1, 2], "authnil": [0, 1]}, "params": {"depth": 6},
             "reach": ["c03:handshake-returned"], "tier": "thorough"},
        ],
        "bounds": {"quick": {"script_depth": 4}, "thorough": {"script_depth": 6}},
        "out": ["byte-level input (C02)", "real TLS", "ServerBuilder.buildAuthenticate adapters"],
        "assumptions": ["Authenticate returns a non-nil result when its error is nil; callbacks return normally"],
    },
    "C04": {
        "level_text": "Two established channels joined by the real in-process transport run as symbolic threads: 1-2 sender goroutines issuing a symbolic mix "
                      "of messages, notifications, request and response commands through the real Send* / sendToTransport, the real receiver goroutine "
                      "(receiveFromTransport, trySubmitCommandResult) and the real dispatch loop with recording handlers on the other side, buffer sizes 0 "
                      "and 1, every thread choice at blocking points explored (plus P pre-emptions in the thorough tier). Verdicts: every envelope whose "
                      "send succeeded is delivered exactly once (pointer identity), nothing else is delivered, and same-kind envelopes of one sender keep "
                      "their order. A one-step lemma shows that the receiver puts an arbitrary inbound envelope on exactly one stream, of its kind, as "
                      "received. The WebSocket transport: " + WS_NOTE + "every message sent is received once, intact and in order, an undecodable message fails one receive only, "
                      "nothing is received after a failed read, a successful Send puts exactly the envelope's JSON on the wire. The TCP byte/frame path is C12's claim, dispatch-to-one-handler is C20's.",
        "level_note": "Trusted: SSA->SMT executor, bounded cooperative scheduler (no instruction-level races), FIFO semantics of Go channels as modelled, z3. "
                      "Bounds: <= 2 senders, <= 2 envelopes each, buffers {0,1}, P = 0 / 1; WebSocket: <= 2 messages, 1 / 2 fragmented reads, 1 stall. Real sockets, TLS, gorilla's framing itself (modelled at message level) and payload sizes are outside the claim.",
        "runs": [
            {"harness": "HarnessC18WS", "params": {"sched": 1, "msgs": 1}, "reach": ["c18:wire-session-settled"], "threads": True},
            {"harness": "HarnessC18WS", "params": {"sched": 1, "msgs": 1, "tcp": 1, "cclock": 1}, "reach": ["c18:wire-session-settled"], "threads": True},
            {"harness": "HarnessC19InProcSend", "reach": ["c19:inproc-peer-gone"]},
            {"harness": "HarnessC04Route", "reach": ["c04:receiver-ran"], "threads": True},
            {"harness": "HarnessC04Pipe", "grid": {"buf": [0, 1], "tbuf": [0, 1]}, "params": {"sched": 1, "senders": 1, "per": 2},
             "reach": ["c04:settled"], "threads": True, "tier": "quick"},
            {"harness": "HarnessC04Pipe", "grid": {"buf": [0, 1]}, "params": {"sched": 1, "senders": 2, "per": 1, "tbuf": 0},
             "reach": ["c04:settled"], "threads": True, "tier": "quick"},
            {"harness": "HarnessC05Match", "grid": {"order": [0, 1]}, "params": {"sched": 1, "requesters": 2, "responses": 2},
             "reach": ["c05:settled"], "threads": True},
            {"harness": "HarnessC05LateResponse", "params": {"sched": 1, "P": 0}, "reach": ["c05:late-response-attempt-returned"], "threads": True},
            {"harness": "HarnessC05SendFail", "params": {"sched": 1, "P": 0}, "reach": ["c05:first-attempt-returned"], "threads": True},
            {"harness": "HarnessWSReceive", "params": {"sched": 1, "garbage": 1, "frag": 1, "frames": 2, "timeouts": 1}, "reach": ["c04:ws-received-one", "c04:ws-receive-error"], "threads": True, "tier": "quick"},
            {"harness": "HarnessWSSend", "params": {"sched": 1, "sends": 2, "timeouts": 1}, "reach": ["c04:ws-send-returned"], "threads": True},
            {"harness": "HarnessWSReceive", "grid": {"garbage": [0, 1]}, "params": {"sched": 1, "frag": 2, "frames": 2, "timeouts": 1}, "reach": ["c04:ws-received-one", "c04:ws-receive-error"], "threads": True, "tier": "thorough", "timeout": 3000},
            {"harness": "HarnessC04Pipe", "grid": {"buf": [0, 1], "tbuf": [0, 1]}, "params": {"sched": 1, "P": 0, "senders": 2, "per": 2},
             "reach": ["c04:settled"], "threads": True, "tier": "thorough", "timeout": 7000},
            {"harness": "HarnessC04Pipe", "grid": {"buf": [0, 1], "tbuf": [0, 1]}, "params": {"sched": 1, "P": 1, "senders": 1, "per": 2},
             "reach": ["c04:settled"], "threads": True, "tier": "thorough", "timeout": 7000},
        ],
        "bounds": {"quick": {"senders": 2, "envelopes_per_sender": 2, "preemptions": 0}, "thorough": {"senders": "2 (P=0) / 1 (P=1)", "envelopes_per_sender": 2, "preemptions": 1}},
        "out": ["real sockets, TLS, WebSocket framing below the message level (gorilla is a model in the engine, the real code natively)", "payload sizes (C12/C16)", "more than two senders", "instruction-level data races"],
        "assumptions": [],
    },
    "C05": {
        "level_text": "The real channel.processCommand / trySubmitCommandResult / receiveFromTransport run as symbolic threads: two requester goroutines with "
                      "symbolic ids (so 'two requests share an id' is a solver decision), a receiver fed a scripted sequence of responses with symbolic ids "
                      "(matching, foreign, duplicate, late), contexts that time out; every thread choice at blocking points (and up to P pre-emptions at "
                      "lock/channel operations) is explored. Verdicts: a request completes only with a response bearing its id or with its context's error; "
                      "each response is delivered at most once and is not lost (unless swallowed by a request timing out at that moment); an unmatched "
                      "response surfaces on the response stream; a pending id is refused without disturbing the pending request; ids are reusable after "
                      "completion; the pending table is empty at the end and the receiver is never stuck on a requester.",
        "level_note": "Trusted: SSA->SMT executor, the bounded cooperative scheduler (switches at blocking points and at <= P pre-emption points at "
                      "synchronisation operations; no instruction-level races), z3. Bounds: 2 requesters, 2 / 3 responses, P = 1 / 2. Schedule-dependent "
                      "witnesses are replayed natively with up to 20 attempts.",
        "runs": [
            {"harness": "HarnessC05Match", "grid": {"order": [0, 1]}, "params": {"sched": 1, "P": 1, "requesters": 2, "responses": 2},
             "reach": ["c05:settled"], "threads": True, "tier": "quick"},
            {"harness": "HarnessC05Match", "grid": {"order": [0, 1]}, "params": {"sched": 1, "P": 2, "requesters": 2, "responses": 3},
             "reach": ["c05:settled"], "threads": True, "tier": "thorough"},
            {"harness": "HarnessC05Reuse", "params": {"sched": 1, "P": 1}, "reach": ["c05:second-request-returned"], "threads": True},
            {"harness": "HarnessC05SendFail", "params": {"sched": 1, "P": 1}, "reach": ["c05:first-attempt-returned"], "threads": True},
            {"harness": "HarnessC05Overlap", "grid": {"P": [0, 1]}, "params": {"sched": 1}, "reach": ["c05:overlap-settled"], "threads": True},
            {"harness": "HarnessC05LateResponse", "grid": {"P": [0, 1]}, "params": {"sched": 1}, "reach": ["c05:late-response-attempt-returned"], "threads": True},
        ],
        "bounds": {"quick": {"requesters": 2, "responses": 2, "preemptions": 1}, "thorough": {"requesters": 2, "responses": 3, "preemptions": 2}},
        "out": ["more than two concurrent requesters", "instruction-level data races"],
        "assumptions": [],
    },
    "C06": {
        "level_text": "(1) From a channel in an arbitrary state (symbolic state member, client/server, transport up/down) each of SendMessage, "
                      "SendNotification, SendRequestCommand, SendResponseCommand, ProcessCommand and the dispatch loop is executed symbolically: outside "
                      "'established' it returns an error, the transport's Send/Receive are never entered and no pending-command entry stays behind; when "
                      "established it writes exactly the given envelope once. (2) In both roles' real handshakes against an arbitrary scripted peer, a "
                      "data envelope injected before establishment aborts the handshake with every inbound stream empty, only session envelopes are "
                      "written before establishment, and the receiver goroutine (the only producer of the inbound streams) does not exist before it.",
        "level_note": "Trusted: SSA->SMT executor, cooperative scheduler, z3. Bounds: handshake script depth 5 in both tiers (quick: one encryption configuration and transport; thorough: the 2 x 2 grid of them). The window between the state check and "
                      "transport.Send when another goroutine ends the session concurrently is outside the claim (instruction-level schedule).",
        "runs": [
            {"harness": "HarnessC06Send", "grid": {"op": [0, 1, 2, 3, 4, 5]}, "reach": ["c06:not-established"]},
            {"harness": "HarnessC06AfterEnd", "grid": {"end": [0, 1, 2, 3, 4], "buf": [0, 1]}, "reach": ["c06:session-ended"], "threads": True},
            {"harness": "HarnessC06Inject", "grid": {"role": [0, 1]}, "params": {"depth": 5, "enccfg": 2, "transport": 0},
             "reach": ["c06:data-envelope-before-establishment"], "tier": "quick"},
            {"harness": "HarnessC06Inject", "grid": {"role": [0, 1], "enccfg": [0, 2], "transport": [0, 2]}, "params": {"depth": 5},
             "reach": ["c06:data-envelope-before-establishment"], "tier": "thorough"},
        ],
        "bounds": {"quick": {"script_depth": 5}, "thorough": {"script_depth": 5}},
        "out": ["the window between the state check and transport.Send under a concurrent terminal transition"],
        "assumptions": [],
    },
    "C07": {
        "level_text": "Same symbolic server handshake as C03; the emitted session envelopes are checked against the protocol grammar (negotiating options, "
                      "confirmation, authenticating options, round trips, established, at most one terminal), single session id, server node as sender, "
                      "and fail-closed behaviour: whenever the peer sent only session envelopes, no callback failed and the session was not established, "
                      "the last emitted envelope is 'failed' with a reason, nothing follows and the transport is closed.",
        "level_note": "Trusted: SSA->SMT executor, z3. Bounds: script depth 4 / 6; configurations sharing at least one compression and one encryption option with the transport.",
        "runs": [
            {"harness": "HarnessC07Server", "grid": {"enccfg": [0, 1, 2, 3], "transport": [0, 1, 2]}, "params": {"depth": 4}, "skip": INSANE,
             "reach": ["c07:handshake-returned", "c07:client-violated-the-exchange"], "tier": "quick"},
            {"harness": "HarnessC07Server", "grid": {"enccfg": [0, 1, 2, 3], "transport": [0, 1, 2], "authnil": [0, 1]}, "params": {"depth": 5}, "skip": INSANE,
             "reach": ["c07:handshake-returned"], "tier": "thorough"},
        ],
        "bounds": {"quick": {"script_depth": 4}, "thorough": {"script_depth": 5}},
        "out": ["transport send failures during FailSession (C14)", "byte-level input (C02)"],
        "assumptions": ["callbacks return normally"],
    },
    "C08": {
        "level_text": "The real ClientChannel.EstablishSession (and Client.buildChannel) run symbolically against a scripted server: every Receive returns "
                      "an arbitrary session (any state incl. regressions, any id, nodes, option lists, confirmations, round-trip data), a non-session envelope "
                      "or an error; selectors and authenticator are stubs. Verdicts: no reachable panic (including in the receiver goroutine once "
                      "established), truthful establishment (state/id/local/remote node adopted from the server's established envelope), id echo, "
                      "credentials only in answer to an authentication request, close on finished/failed.",
        "level_note": "Trusted: SSA->SMT executor, cooperative scheduler (no pre-emption), z3. Bounds: script depth 6 / 8; the caller's context has a deadline "
                      "(a server that stops talking ends the handshake with the context's error).",
        "runs": [
            {"harness": "HarnessC08Client", "params": {"depth": 4}, "reach": ["c08:handshake-returned", "c08:client-established"], "tier": "quick"},
            {"harness": "HarnessC08Build", "params": {"depth": 4}, "reach": ["c08:build-returned"], "tier": "quick"},
            {"harness": "HarnessC08Client", "grid": {"emptyopts": [0, 1], "setfails": [0, 1], "roundtrip": [0, 1]}, "params": {"depth": 6},
             "reach": ["c08:handshake-returned"], "tier": "quick"},
            {"harness": "HarnessC08Build", "grid": {"sendfails": [0, 1]}, "params": {"depth": 6}, "reach": ["c08:build-returned"], "tier": "quick"},
            {"harness": "HarnessC08Client", "grid": {"emptyopts": [0, 1], "setfails": [0, 1], "roundtrip": [0, 1]}, "params": {"depth": 8},
             "reach": ["c08:handshake-returned"], "tier": "thorough"},
            {"harness": "HarnessC08Build", "grid": {"sendfails": [0, 1]}, "params": {"depth": 8}, "reach": ["c08:build-returned"], "tier": "thorough"},
        ],
        "bounds": {"quick": {"script_depth": 6}, "thorough": {"script_depth": 8}},
        "out": ["the library's default selectors/authenticator (they index options[0] / panic by design and are callbacks in the property's sense)"],
        "assumptions": ["selector and authenticator callbacks return normally"],
    },
    "C09": {
        "level_text": "Same symbolic server handshake as C03 over all configured/supported option lattices: the offered lists equal configured ∩ supported "
                      "(as sets), a confirmation is emitted only for an offered pair, any other reply is answered with failed, and the transport had "
                      "switched to the confirmed options before the authentication request was sent and before any credentials were examined. The client "
                      "side (applies the confirmed values before its next receive) is covered by the C08 harness.",
        "level_note": "Trusted: SSA->SMT executor, z3; TLS itself is a stub (SetEncryption records the switch). Bounds: script depth 4 / 6.",
        "runs": [
            {"harness": "HarnessC08Client", "params": {"depth": 4}, "reach": ["c09:client-got-confirmation"]},
            {"harness": "HarnessC08Client", "params": {"depth": 4, "setfails": 1}, "reach": ["c09:client-option-switch-failed"]},
            # transport level: tcpTransport.SetEncryption over a TLS stub (not replayable natively: real TLS needs a real peer)
            {"harness": "HarnessC09TCPEncryption", "reach": ["c09:upgraded", "c09:handshake-failed"], "replay_reach": 0},
            {"harness": "HarnessC09Server", "grid": {"enccfg": [0, 1, 2, 3], "transport": [0, 1, 2]}, "params": {"depth": 4}, "skip": INSANE,
             "reach": ["c09:handshake-returned"], "tier": "quick"},
            {"harness": "HarnessC09Server", "grid": {"enccfg": [0, 1, 2, 3], "transport": [0, 1, 2], "setfails": [0, 1]}, "params": {"depth": 5}, "skip": INSANE,
             "reach": ["c09:handshake-returned"], "tier": "thorough"},
        ],
        "bounds": {"quick": {"script_depth": 4}, "thorough": {"script_depth": 6}},
        "out": ["the TLS handshake and record layer"],
        "assumptions": [],
    },
    "C10": {
        "level_text": "Same symbolic server handshake with every configuration whose encryption list excludes 'none' on every transport able to provide "
                      "a configured option, against arbitrary (cooperative or hostile) client scripts: at every emitted authenticating/established "
                      "envelope and at every Authenticate call the transport's encryption is a member of the configured list. The documented case on the real TCP transport: "
                      "with EncryptionOptions(TLS) and a tls.Config (static or per-connection certificates) the server's first answer to `new` offers exactly [tls] and no "
                      "credentials are requested in cleartext (the real tcpTransport.SupportedEncryption / Send / Receive over a frame-level connection).",
        "level_note": "Trusted: SSA->SMT executor, z3; SetEncryption is a stub that records the switch. Bounds: script depth 4 / 6.",
        "runs": [
            {"harness": "HarnessC10TCP", "grid": {"certs": [0, 1]}, "reach": ["c10:tcp-handshake-returned"]},
            {"harness": "HarnessC10Server", "grid": {"enccfg": [1], "transport": [0, 1]}, "params": {"depth": 4},
             "reach": ["c10:handshake-returned"], "tier": "quick"},
            {"harness": "HarnessC10Server", "grid": {"enccfg": [1], "transport": [0, 1], "authnil": [0, 1], "setfails": [0, 1]}, "params": {"depth": 6},
             "reach": ["c10:handshake-returned"], "tier": "thorough"},
        ],
        "bounds": {"quick": {"script_depth": 4}, "thorough": {"script_depth": 6}},
        "out": ["real TLS"],
        "assumptions": [],
    },
    "C12": {
        "level_text": "Byte level: the real ctxConn.Write / ctxConn.Read retry loops run symbolically over a connection stub with an arbitrary fault "
                      "schedule within net.Conn's contract (full writes, short writes ending in a transient timeout or a hard error at every offset, "
                      "arbitrary read sizes with symbolic bytes, transient timeouts, EOF, hard errors): a successful Write put exactly the buffer on the "
                      "wire once and in order, a failed one a prefix; a successful Read hands over exactly the delivered bytes. Frame level: the real "
                      "tcpTransport.Send/Receive (with io.LimitedReader and ctxConn from their SSA, json.Encoder/Decoder as models over an abstract "
                      "stream of frames with symbolic sizes and arbitrary fragmentation, coalescing, stalls, cuts, undecodable bytes): the receiver gets "
                      "exactly the sent envelopes intact and in order or an error, never a fabricated, duplicated or reordered one; Send succeeds iff "
                      "exactly one frame went out.",
        "level_note": "Trusted: SSA->SMT executor, z3, and that json.Encoder writes one frame per call and json.Decoder re-assembles values across chunks "
                      "(standard library). Bounds: buffers of 3 / 5 bytes, <= 2 / 3 transient timeouts per call, <= 2 frames, <= 1 arbitrary fragment besides whole-buffer reads (2 fragments did not finish in 50 min and are not claimed) "
                      "per connection beyond which reads deliver what is available. A Read returning data together with an error and TLS are outside the claim.",
        "runs": [
            {"harness": "HarnessC12Write", "params": {"len": 3, "timeouts": 2}, "reach": ["c12:write-succeeded"], "tier": "quick"},
            {"harness": "HarnessC12Read", "params": {"len": 3, "timeouts": 2}, "reach": ["c12:read-succeeded"], "tier": "quick"},
            {"harness": "HarnessC12Send", "grid": {"trace": [0, 1]}, "params": {"sends": 2, "timeouts": 2}, "reach": ["c12:send-returned"], "tier": "quick"},
            {"harness": "HarnessC12Receive", "params": {"frames": 2, "timeouts": 1, "frag": 1, "viaaccept": 1, "kind0": 0}, "reach": ["c12:received-one"], "tier": "quick"},
            {"harness": "HarnessC12Receive", "grid": {"cancel": [0, 1], "kind0": [0, 1, 2, 3, 4, 5]}, "params": {"frames": 2, "timeouts": 1, "frag": 1},
             "reach": ["c12:received-one"], "tier": "quick"},
            {"harness": "HarnessC12Write", "grid": {"len": [4, 5]}, "params": {"timeouts": 3}, "reach": ["c12:write-succeeded"], "tier": "thorough"},
            {"harness": "HarnessC12Read", "params": {"len": 5, "timeouts": 3}, "reach": ["c12:read-succeeded"], "tier": "thorough"},
            {"harness": "HarnessC12Send", "params": {"sends": 3, "timeouts": 3}, "reach": ["c12:send-returned"], "tier": "thorough"},
            {"harness": "HarnessC12Receive", "grid": {"garbage": [0, 1], "cancel": [0, 1], "kind0": [0, 1, 2, 3, 4, 5]}, "params": {"frames": 2, "timeouts": 2, "frag": 1}, "reach": ["c12:received-one"], "tier": "thorough"},
        ],
        "bounds": {"quick": {"buffer": 3, "timeouts": 2, "frames": 2, "fragments": 1}, "thorough": {"buffer": 5, "timeouts": 3, "frames": 2, "fragments": 1, "receive_timeouts": 2, "undecodable_bytes": True}},
        "out": ["json.Encoder/Decoder internals", "a Read that returns data and an error", "the TLS record layer"],
        "assumptions": ["net.Conn contract: Write returns err != nil when n < len(b); Read returns n >= 1 with nil error, or 0 with an error"],
    },
    "C15": {
        "level_text": "(a) The poll loops of the real ctxConn.Read/Write run against a silent peer with a symbolic clock, a symbolic context deadline and a "
                      "symbolic cancellation instant: every deadline armed on the socket is at most one poll interval (5 s) ahead and never after the "
                      "context's deadline, the context is re-examined before every blocking call, and the loop ends with the context's error - hence a "
                      "return by the deadline, or within one poll interval of a cancellation. (b) in-process Send/Receive/Accept, channel send, "
                      "ProcessCommand, receiveSession, client FinishSession and EstablishSession, a send / a server FinishSession waiting for its turn behind a stuck sender, and the TCP listener's Accept are executed with a "
                      "context that has already ended or ends while they block on a silent / non-reading peer: no path leaves the caller blocked, and "
                      "the error wraps the context's error. (c) WebSocket: " + WS_NOTE + "Send to a peer that does not read (the write is blocked on the socket) and "
                      "Receive from a silent peer return with the context's error once the context ends and leave no helper goroutine behind. (d) tcpTransport.SetEncryption arms the socket, for "
                      "the TLS handshake (a stub), with the context's deadline, or now + 30 s without one.",
        "level_note": "Trusted: SSA->SMT executor, scheduler (timers fire when no thread can run), z3. Bounds: 3 / 5 poll iterations, queue capacity 1. "
                      "gorilla's internals below WriteJSON/ReadJSON (a model), the TLS handshake's duration and lock contention are outside the claim; "
                      "time is symbolic.",
        "runs": [
            {"harness": "HarnessC15Poll", "grid": {"op": [0, 1]}, "params": {"polls": 3}, "reach": ["c15:poll-returned"], "tier": "quick"},
            {"harness": "HarnessC15Poll", "params": {"op": 1, "polls": 3, "partial": 1}, "reach": ["c15:poll-returned"], "tier": "quick"},
            {"harness": "HarnessC15Poll", "grid": {"op": [0, 1]}, "params": {"polls": 5}, "reach": ["c15:poll-returned"], "tier": "thorough", "qtimeout": 300},
            {"harness": "HarnessC15Block", "grid": {"op": [0, 1, 2, 3, 4, 5, 6, 7, 8, 9, 10, 11], "ctxmode": [0, 1]}, "reach": ["c15:operation-returned"]},
            {"harness": "HarnessC09TCPEncryption", "reach": ["c09:upgraded", "c09:handshake-failed"], "replay_reach": 0},
            {"harness": "HarnessC05Reuse", "params": {"sched": 1, "P": 0}, "reach": ["c05:second-request-returned"], "threads": True},
            {"harness": "HarnessC05Match", "params": {"sched": 1, "order": 0, "requesters": 2, "responses": 2}, "reach": ["c05:settled"], "threads": True},
            {"harness": "HarnessC15WS", "grid": {"op": [0, 1, 2], "ctxmode": [0, 1], "P": [0, 1]}, "params": {"sched": 1}, "reach": ["c15:ws-operation-returned"], "threads": True},
        ],
        "bounds": {"quick": {"poll_iterations": 3}, "thorough": {"poll_iterations": 5}},
        "out": ["gorilla's internals (model at the level of the methods lime-go calls)", "websocket listener / dialer (net/http)", "TLS handshake duration", "lock contention", "wall-clock (time is a symbolic non-decreasing sequence)"],
        "assumptions": ["a stalled socket call returns a timeout no earlier than the armed deadline"],
    },
    "C16": {
        "level_text": "The real tcpTransport.Receive / setConn with io.LimitedReader.Read and ctxConn.Read from their SSA, the decoder as a model that reads "
                      "until the next frame is complete: read limit, frame sizes, read-ahead and every read length are symbolic integers. Verdicts: no "
                      "Receive consumes more than ReadLimit bytes from the connection; the budget is restored after each envelope; a frame larger than "
                      "twice the limit is rejected whatever read-ahead preceded it; a frame within the limit (JSON text plus its delimiter) is accepted "
                      "after any predecessor and fragmentation.",
        "level_note": "Trusted: SSA->SMT executor, z3, the decoder model (reads until a value is complete; any read length >= 1). Bounds: limit in [256, 4096], "
                      "frame size <= 3*limit+64, <= 1 predecessor (2 predecessors with 3 fragments did not finish in 50 min and are not claimed), <= 2 / 3 arbitrary fragments, <= 1 / 2 transient timeouts. An envelope is measured by its wire "
                      "footprint (text + one delimiter byte).",
        "runs": [
            {"harness": "HarnessC16Budget", "grid": {"trace": [0, 1], "viaaccept": [0, 1]}, "params": {"pre": 1, "timeouts": 1, "frag": 2}, "reach": ["c16:oversized", "c16:within-limit"], "tier": "quick"},
            {"harness": "HarnessC16Budget", "grid": {"trace": [0, 1], "viaaccept": [0, 1]}, "params": {"pre": 1, "timeouts": 2, "frag": 3}, "reach": ["c16:oversized", "c16:within-limit"], "tier": "thorough", "qtimeout": 300},
        ],
        "bounds": {"quick": {"predecessors": 1, "fragments": 2, "timeouts": 1}, "thorough": {"predecessors": 1, "fragments": 3, "timeouts": 2}},
        "out": ["json.Decoder's real buffering policy (the model allows any read length >= 1, a superset)", "limits outside [256, 4096]"],
        "assumptions": [],
    },
    "C13": {
        "level_text": "Both roles are the real code: a ClientChannel and a ServerChannel served by Server.handleChannel, joined by the real in-process "
                      "transport and established through the real handshake, run as symbolic threads with dispatch loops consuming on both sides and 0-1 "
                      "data envelope in flight in each direction; then the client finishes, or the server finishes, or the server fails the session, with "
                      "every thread choice at blocking points (and up to P pre-emptions) explored. Verdicts: the terminating call succeeds, both sides reach "
                      "the matching terminal state (the peer observes the terminal envelope), all inbound streams and receiver-done are closed on both "
                      "sides, both connections are closed, dispatch loop and serving goroutine return, Finished fires once, and no goroutine is left. "
                      "Termination through Client.Close and Server.Close is covered by the C19 and C18 runs listed here. WebSocket: a server channel over the gorilla "
                      "model finishes its session while an application send is stuck in the socket (client not reading): both calls return, nothing panics "
                      "(gorilla panics on concurrent writers), the connection is released. One whole server-side session over the WebSocket and the TCP "
                      "transport (HarnessC18WS, see C18) ends with 'finished' on the wire and the connection closed.",
        "level_note": "Trusted: SSA->SMT executor, bounded cooperative scheduler (no instruction-level races), z3. Bounds: one session, <= 1 in-flight envelope "
                      "per direction, buffers {0,1}; pre-emptions only in the dedicated race harnesses (P <= 2 / 3). TLS and gorilla's internals (a model) are outside the claim.",
        "runs": [
            {"harness": "HarnessC18WS", "params": {"sched": 1, "msgs": 1}, "reach": ["c18:wire-session-settled"], "threads": True},
            {"harness": "HarnessC18WS", "params": {"sched": 1, "msgs": 1, "tcp": 1, "cclock": 1}, "reach": ["c18:wire-session-settled"], "threads": True},
            {"harness": "HarnessC13Teardown", "grid": {"who": [0, 1, 2], "buf": [0, 1]}, "params": {"sched": 1, "tbuf": 1},
             "reach": ["c13:end-settled"], "threads": True, "tier": "quick"},
            {"harness": "HarnessC13Teardown", "grid": {"who": [0, 1, 2]}, "params": {"sched": 1, "tbuf": 0, "buf": 1},
             "reach": ["c13:end-settled"], "threads": True, "tier": "quick"},
            {"harness": "HarnessC13Teardown", "grid": {"who": [0, 1, 2]}, "params": {"sched": 1, "tbuf": 0, "buf": 0},
             "reach": ["c13:end-settled"], "threads": True, "tier": "thorough"},
            {"harness": "HarnessC13WSFinishWhileSending", "grid": {"P": [0, 1]}, "params": {"sched": 1}, "reach": ["c13:ws-finish-while-sending-returned"], "threads": True},
            {"harness": "HarnessC13HangUp", "grid": {"who": [0, 1], "tbuf": [0, 1]}, "params": {"sched": 1, "P": 3},
             "reach": ["c13:hangup-settled"], "threads": True, "tier": "thorough", "timeout": 7000},
            {"harness": "HarnessC13HangUp", "grid": {"who": [0, 1], "tbuf": [0, 1], "P": [1, 2]}, "params": {"sched": 1},
             "reach": ["c13:hangup-settled"], "threads": True},
            {"harness": "HarnessC13Teardown", "grid": {"who": [1, 2]}, "params": {"sched": 1, "tbuf": 0, "buf": 1, "hangup": 1},
             "reach": ["c13:end-settled"], "threads": True, "tier": "thorough", "timeout": 7000},
            {"harness": "HarnessC13Parked", "grid": {"who": [1, 2, 3], "P": [0, 1]}, "params": {"sched": 1, "buf": 0},
             "reach": ["c13:parked-settled"], "threads": True},
            {"harness": "HarnessC19Recover", "grid": {"fault": [0, 2]}, "params": {"sched": 1, "spinok": 1, "P": 1}, "unroll": 5,
             "reach": ["c19:send-after-fault-returned"], "threads": True},
            {"harness": "HarnessC18StartStop", "params": {"sched": 1, "P": 1, "listeners": 1, "when": 1}, "reach": ["c18:closed"], "threads": True},
        ],
        "bounds": {"quick": {"in_flight": 1, "preemptions": 0}, "thorough": {"in_flight": 1, "preemptions": 1}},
        "out": ["real transports' helper goroutines", "termination racing with more traffic than the bound", "a real goroutine census"],
        "assumptions": ["both sides keep consuming their inbound streams"],
    },
    "C14": {
        "level_text": "Server.handleChannel is executed symbolically over the same scripted transport and callback outcomes (every failing client script, "
                      "receive errors, non-session input, Authenticate/Register errors, misconfiguration): when the session never reached established the "
                      "transport has been closed, neither callback fired and no goroutine of the connection is left; when it was established the callbacks "
                      "fired exactly once each with the session id, Established before any handler.",
        "level_note": "Trusted: SSA->SMT executor, cooperative scheduler (no pre-emption), z3. Bounds: script depth 4 / 5, channel buffer 1.",
        "runs": [
            {"harness": "HarnessC14Serve", "grid": {"enccfg": [0, 1, 2, 3], "transport": [0, 1, 2]}, "params": {"depth": 4},
             "reach": ["c14:serve-returned", "c14:never-established"], "tier": "quick"},
            {"harness": "HarnessC14TCP", "grid": {"fault": [0, 1, 2, 3]}, "reach": ["c14:tcp-serve-returned"]},
            {"harness": "HarnessC14WS", "grid": {"fault": [0, 1, 2]}, "params": {"sched": 1}, "reach": ["c14:ws-serve-returned"], "threads": True},
            {"harness": "HarnessC14Serve", "grid": {"transport": [0, 2]}, "params": {"enccfg": 2, "depth": 3, "dropnotice": 1},
             "reach": ["c14:serve-returned", "c14:never-established"]},
            {"harness": "HarnessC14Serve", "grid": {"enccfg": [0, 1, 2, 3], "transport": [0, 1, 2], "sendfails": [0, 1]}, "params": {"depth": 5},
             "reach": ["c14:serve-returned"], "tier": "thorough"},
        ],
        "bounds": {"quick": {"script_depth": 4}, "thorough": {"script_depth": 5}},
        "out": ["real transports' own goroutines", "the client-side half of the statement beyond 'the server closed the connection'"],
        "assumptions": ["callbacks return normally"],
    },
    "C17": {
        "level_text": "The real Server.consumeTransports / handleChannel / NewServerChannel / EstablishSession / sessionContext / EnvelopeMux.listen run as "
                      "symbolic threads over two connections that are both waiting in the backlog when the server starts: each is served by a cooperative "
                      "scripted client (handshake, then data messages), the Register callback assigns an address different from the candidate, the "
                      "handler replies through the Sender it was given; every thread choice at blocking points is explored. Verdicts: both connections get "
                      "a session, the ids are distinct and equal the ids announced to their clients, the handler's context carries that session's id, "
                      "local node and registered remote node, the reply is written to the same session's connection and never to the other, every "
                      "message is handled once, and stopping the server closes both connections.",
        "level_note": "Trusted: SSA->SMT executor, bounded cooperative scheduler (no instruction-level races), uuid values modelled as pairwise distinct, z3. "
                      "Bounds: 2 sessions, 2 / 3 data messages each (pre-emption bound 0; 1 message each also with the default pre-emption bound in quick), channel buffer {0,1}.",
        "runs": [
            {"harness": "HarnessC18StartStop", "params": {"sched": 1, "P": 0, "listeners": 2, "when": 1, "closeerr": 0}, "reach": ["c18:closed"], "threads": True},
            {"harness": "HarnessC17Context", "grid": {"buf": [0, 1]}, "params": {"sched": 1}, "reach": ["c17:all-kinds-dispatched"], "threads": True},
            {"harness": "HarnessC17Sessions", "grid": {"buf": [0, 1]}, "params": {"sched": 1, "msgs": 1}, "reach": ["c17:sessions-settled"],
             "threads": True, "tier": "quick"},
            {"harness": "HarnessC17Sessions", "grid": {"buf": [0, 1]}, "params": {"sched": 1, "P": 0, "msgs": 2}, "reach": ["c17:sessions-settled"],
             "threads": True, "timeout": 7000},
            {"harness": "HarnessC17Sessions", "grid": {"buf": [0, 1]}, "params": {"sched": 1, "P": 0, "msgs": 3}, "reach": ["c17:sessions-settled"],
             "threads": True, "tier": "thorough", "timeout": 7000},
        ],
        "bounds": {"quick": {"sessions": 2, "messages": 2, "preemptions": 0}, "thorough": {"sessions": 2, "messages": 3, "preemptions": 0}},
        "out": ["uuid collisions", "more than two sessions (symmetry argument only)", "instruction-level data races", "mixed real transports"],
        "assumptions": ["uuid.NewString returns pairwise distinct values"],
    },
    "C18": {
        "level_text": "(1) The real Server.ListenAndServe / acceptTransports / consumeTransports / handleChannel / Close (errgroup executed from its SSA) run as "
                      "symbolic threads over scripted listeners: Close arrives before the serving goroutines ran or after everything settled, with every "
                      "thread choice at blocking points and up to P pre-emptions explored, 0-1 client connecting, 1-2 listeners, a listener whose Close fails. "
                      "Verdicts: no reachable panic, the serve call returns ErrServerClosed, every listener is stopped, an established session's client "
                      "observes 'finished', accepted connections are released, no serving goroutine is left. (2) Callback discipline from the symbolic "
                      "handleChannel runs of C14: Established exactly once iff the session reached established and before any handler, Finished exactly "
                      "once afterwards for the same id - also when the client drops the connection abruptly. (3) One whole server-side session on the real wire "
                      "transports: consumeTransports / handleChannel / EstablishSession / dispatch / FinishSession over websocketTransport (gorilla model) and over "
                      "tcpTransport (json codec models, real ctxConn poll loop, socket read deadlines as timers on a concrete clock), the peer being a cooperative "
                      "byte-level client: every message handled once and answered on the same connection; on stop the client is sent 'finished', the "
                      "connection is closed, the callbacks fired once each, nothing is left running.",
        "level_note": "Trusted: SSA->SMT executor, bounded cooperative scheduler (switches at blocking points, <= P pre-emptions at synchronisation operations; "
                      "no instruction-level races, e.g. the unsynchronised srv.shutdown field), z3. Bounds: <= 2 listeners, <= 1 session, P <= 1.",
        "runs": [
            {"harness": "HarnessC18StartStop", "grid": {"when": [0, 1]}, "params": {"sched": 1, "P": 1, "listeners": 1},
             "reach": ["c18:closed"], "threads": True, "tier": "quick"},
            {"harness": "HarnessC18StartStop", "grid": {"when": [0, 1], "closeerr": [0, 1]}, "params": {"sched": 1, "P": 0, "listeners": 2},
             "reach": ["c18:closed"], "threads": True, "tier": "quick"},
            {"harness": "HarnessC13HangUp", "grid": {"who": [0, 1]}, "params": {"sched": 1, "tbuf": 1, "P": 2}, "reach": ["c13:hangup-settled"], "threads": True},
            {"harness": "HarnessC18WS", "params": {"sched": 1, "msgs": 1}, "reach": ["c18:wire-session-settled"], "threads": True, "tier": "quick"},
            {"harness": "HarnessC18WS", "params": {"sched": 1, "msgs": 1, "tcp": 1, "cclock": 1}, "reach": ["c18:wire-session-settled"], "threads": True, "tier": "quick"},
            {"harness": "HarnessC18WS", "grid": {"P": [0, 1]}, "params": {"sched": 1, "msgs": 2, "tcp": 1, "cclock": 1}, "reach": ["c18:wire-session-settled"], "threads": True, "tier": "thorough"},
            {"harness": "HarnessC18WS", "grid": {"msgs": [0, 2], "P": [0, 1]}, "params": {"sched": 1}, "reach": ["c18:wire-session-settled"], "threads": True, "tier": "thorough", "skip": [{"msgs": 2, "P": 1}], "timeout": 3000},
            {"harness": "HarnessC18StartStop", "params": {"sched": 1, "P": 0, "listeners": 2, "slowlisten": 1, "when": 0},
             "reach": ["c18:closed"], "threads": True},
            {"harness": "HarnessC14Serve", "params": {"enccfg": 2, "transport": 2, "depth": 4, "schemecfg": 0, "compcfg": 0, "sendfails": 1},
             "reach": ["c18:served-established-session"]},
            {"harness": "HarnessC18StartStop", "grid": {"when": [0, 1], "backlog": [0, 1]}, "params": {"sched": 1, "P": 1, "listeners": 1},
             "reach": ["c18:closed"], "threads": True, "tier": "thorough", "timeout": 7000},
            {"harness": "HarnessC18StartStop", "grid": {"when": [0, 1], "closeerr": [0, 1]}, "params": {"sched": 1, "P": 1, "listeners": 2},
             "reach": ["c18:closed"], "threads": True, "tier": "thorough", "timeout": 7000},
            {"harness": "HarnessC14Serve", "grid": {"transport": [0, 2]}, "params": {"enccfg": 2, "depth": 4, "schemecfg": 0, "compcfg": 0, "dropnotice": 1},
             "reach": ["c18:served-established-session"]},
        ],
        "bounds": {"quick": {"listeners": 2, "sessions": 1, "preemptions": 1}, "thorough": {"listeners": 2, "sessions": 1, "preemptions": 1}},
        "out": ["real listeners' own goroutines", "more than one session", "instruction-level data races"],
        "assumptions": ["callbacks return normally"],
    },
    "C19": {
        "level_text": "A real Client (NewClient: listener goroutine, getOrBuildChannel, buildChannel, the real client handshake, receiver goroutine, dispatch "
                      "loop, Client.Close) runs as symbolic threads over a transport factory whose transports are scripted well-behaved servers; after "
                      "establishment one fault is injected: server 'finished', server 'failed', connection drop noticed by the transport, undecodable "
                      "inbound data (Receive fails, connection stays up). Verdicts after the fault: the listener does not busy-loop (a background thread "
                      "iterating without ever blocking is detected by the unwinding bound), a fresh session is established, a later SendMessage succeeds and "
                      "is written to the live session (never to the lost one), an inbound envelope on the new session reaches the handler, the lost "
                      "session's connection is released, and Client.Close leaves no goroutine behind.",
        "level_note": "Trusted: SSA->SMT executor, bounded cooperative scheduler, z3. Bounds: 1 fault, <= 4 transports, loop bound 5 for library loops, P = 0 / 1 / 2 (all three in both tiers). "
                      "Busy-looping is an engine-side verdict (not observable natively); its consequences (no fresh session, deaf listener, untruthful send) are "
                      "replayed natively. Back-off sleep timing and repeated faults are outside the claim.",
        "runs": [
            {"harness": "HarnessC19InProcSend", "reach": ["c19:inproc-peer-gone"]},
            {"harness": "HarnessC19Recover", "grid": {"fault": [0, 2]}, "params": {"sched": 1, "spinok": 1, "early": 1, "inbound1": 0, "P": 1},
             "reach": ["c19:send-after-fault-returned"], "threads": True},
            {"harness": "HarnessC19Recover", "grid": {"fault": [0, 1, 2, 3, 4, 5], "inbound1": [0, 1], "P": [0, 1]}, "params": {"sched": 1, "spinok": 1},
             "unroll": 5, "reach": ["c19:send-after-fault-returned"], "threads": True, "tier": "quick"},
            {"harness": "HarnessC19Recover", "grid": {"fault": [0, 1], "P": [0, 1]}, "params": {"sched": 1, "spinok": 1, "badid": 1},
             "unroll": 5, "reach": ["c19:send-after-fault-returned"], "threads": True},
            {"harness": "HarnessC19Recover", "grid": {"fault": [0, 1, 2, 3, 4, 5], "inbound1": [0, 1]}, "params": {"sched": 1, "spinok": 1, "P": 2},
             "unroll": 5, "reach": ["c19:send-after-fault-returned"], "threads": True, "timeout": 7000},
        ],
        "bounds": {"quick": {"faults": 1, "preemptions": 2}, "thorough": {"faults": 1, "preemptions": 2}},
        "out": ["timing of back-off sleeps", "repeated faults", "faults during re-establishment", "real transports"],
        "assumptions": ["the replacement server is reachable and well-behaved"],
    },
    "C20": {
        "level_text": "EnvelopeMux.handleMessage/Notification/RequestCommand/ResponseCommand and the listen loop are executed symbolically over symbolic "
                      "handler tables (per handler: predicate missing or present with a symbolic verdict, handler result nil or error) and pre-loaded inbound "
                      "streams of arbitrary kinds: the invoked handlers are exactly the earliest-registered one whose predicate is missing or accepts, once, "
                      "with the envelope pointer as received and the session as sender; no match invokes nothing and the loop goes on; a handler error stops "
                      "the loop, and Server.handleChannel then finishes the session.",
        "level_note": "Trusted: SSA->SMT executor, cooperative scheduler, z3. Bounds: 4 / 6 handlers per kind, 3 / 4 inbound envelopes (3 handlers per kind in the loop harness).",
        "runs": [
            {"harness": "HarnessC20Handle", "grid": {"kind": [0, 1, 2, 3]}, "params": {"handlers": 4}, "reach": ["c20:handled"], "tier": "quick"},
            {"harness": "HarnessC20Handle", "grid": {"kind": [0, 1, 2, 3]}, "params": {"handlers": 6}, "reach": ["c20:handled"], "tier": "thorough"},
            {"harness": "HarnessC20Listen", "params": {"handlers": 3, "envelopes": 3}, "reach": ["c20:listen-returned"], "tier": "quick"},
            {"harness": "HarnessC20Listen", "params": {"handlers": 3, "envelopes": 4}, "reach": ["c20:listen-returned"], "tier": "thorough"},
            {"harness": "HarnessC14Serve", "params": {"enccfg": 2, "transport": 2, "depth": 4, "schemecfg": 0, "compcfg": 0},
             "reach": ["c20:handler-failed-while-serving"]},
        ],
        "bounds": {"quick": {"handlers": 4, "envelopes": 3}, "thorough": {"handlers": 6, "envelopes": 4}},
        "out": ["nothing material beyond the bounds"],
        "assumptions": ["predicates are pure (their verdict for a handler is fixed per run)"],
    },
    "C11": {
        "level_text": "Every path of the real reply builders (SuccessResponse, SuccessResponseWithResource, FailureResponse, Message.Notification, "
                      "FailedNotification, both AutoReplyPings handlers) and of the real codec round trip of the built reply is executed symbolically "
                      "with symbolic ids, node addresses, methods, events, reasons and resource documents; each assertion is an SMT verdict over all "
                      "values within the string-capacity bound.",
        "level_note": "Trusted: the SSA->SMT executor, the encoding/json dispatch model, z3. Bounds: string capacity 2 (quick) / 4 (thorough), 7-bit bytes, "
                      "resource documents of depth 1.",
        "runs": [
            {"harness": "HarnessC11Response", "grid": {"builder": [0, 1, 2]}, "params": {"cap": 2},
             "reach": ["c11:response-built"], "tier": "quick"},
            {"harness": "HarnessC11Response", "grid": {"doc": [4, 5]}, "params": {"cap": 2, "builder": 1},
             "reach": ["c11:response-built"], "tier": "quick"},
            {"harness": "HarnessC11Notification", "params": {"cap": 2}, "reach": ["c11:notification-built"], "tier": "quick"},
            {"harness": "HarnessC11Ping", "params": {"cap": 2}, "reach": ["c11:ping-handled"]},
            {"harness": "HarnessC11Response", "grid": {"builder": [0, 1, 2], "method": [0, 1, 2, 3, 4, 5, 6]},
             "params": {"cap": 4}, "reach": ["c11:response-built"], "tier": "thorough"},
            {"harness": "HarnessC11Notification", "params": {"cap": 4}, "reach": ["c11:notification-built"], "tier": "thorough"},
        ],
        "bounds": {"quick": {"string_cap": 2}, "thorough": {"string_cap": 4}},
        "out": ["URI text form of the request (net/url is not encodable)", "documents nested deeper than one level as resources"],
        "assumptions": ["node address components contain no reserved separators ('/' everywhere, '@' in name and domain)"],
    },
}
