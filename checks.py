"""Registry of harness runs per property (bounds are the harness parameters)."""

COMMON_ASSUMPTIONS = [
    "symbolic strings are byte vectors of bounded capacity with 7-bit bytes (multi-byte UTF-8 is outside the claim)",
    "encoding/json is replaced by the engine's model of its documented dispatch (DESIGN.md 2.5); lime-go's own "
    "MarshalJSON/UnmarshalJSON/MarshalText/UnmarshalText/populate/toRawEnvelope are executed from their SSA",
    "fmt.Sprintf/Errorf, strings.Split/HasPrefix, errors.New/Is, reflect.ValueOf/IsNil/IsZero/Len/Index/Interface, "
    "sync.Mutex/RWMutex/Once/WaitGroup, context.*, time.Now/Add/After, uuid.New/NewString/Parse are engine stubs with "
    "the contracts of DESIGN.md 2.6; error texts are opaque",
    "every result holds for all values within the stated bounds only; loops are unrolled with an unwinding assertion",
    "the SSA->SMT executor itself is trusted; it is validated by replaying solver witnesses natively on every run",
]

NOTES = ("All checks: bin/check <ID> quick|thorough. Exit 0 = held within the stated bounds (listed known findings are printed as "
         "KNOWN-FINDING), 1 = natively reproduced violation not listed in known_findings.json, 2 = inconclusive (unsupported construct, "
         "solver unknown, unwinding bound exceeded, engine/native mismatch).")

NOT_APPLICABLE = {}

CHECKS = {
    "C11": {
        "level_text": "Every path of the real reply builders (SuccessResponse, SuccessResponseWithResource, FailureResponse, Message.Notification, "
                      "FailedNotification, both AutoReplyPings handlers) and of the real codec round trip of the built reply is executed symbolically "
                      "with symbolic ids, node addresses, methods, events, reasons and resource documents; each assertion is an SMT verdict over all "
                      "values within the string-capacity bound.",
        "level_note": "Trusted: the SSA->SMT executor, the encoding/json dispatch model, z3. Bounds: string capacity 2 (quick) / 4 (thorough), 7-bit bytes, "
                      "resource documents of depth 1.",
        "runs": [
            {"harness": "HarnessC11Response", "grid": {"builder": [0, 1, 2]}, "params": {"cap": 2},
             "reach": ["c11:response-built"], "tier": "quick"},
            {"harness": "HarnessC11Notification", "params": {"cap": 2}, "reach": ["c11:notification-built"], "tier": "quick"},
            {"harness": "HarnessC11Ping", "params": {"cap": 2}, "reach": ["c11:ping-handled"]},
            {"harness": "HarnessC11Response", "grid": {"builder": [0, 1, 2], "method": [0, 1, 2, 3, 4, 5, 6]},
             "params": {"cap": 4}, "reach": ["c11:response-built"], "tier": "thorough"},
            {"harness": "HarnessC11Notification", "params": {"cap": 4}, "reach": ["c11:notification-built"], "tier": "thorough"},
        ],
        "bounds": {"quick": {"string_cap": 2}, "thorough": {"string_cap": 4}},
        "out": ["URI text form of the request (net/url is not encodable)", "documents nested deeper than one level as resources"],
        "assumptions": ["node address components contain no reserved separators ('/' everywhere, '@' in name and domain)"],
    },
}
