package lime

// Harness API. The bodies below are the NATIVE implementations used when a
// solver witness is replayed against the real build (go test -overlay). The
// symbolic executor (gosmt) intercepts every function in this file by name and
// never executes these bodies.

import (
	"bytes"
	"encoding/json"
	"fmt"
	"os"
	"reflect"
	"sync"
	"time"
)

type vVecEntry struct {
	Tag  string      `json:"tag"`
	Kind string      `json:"kind"`
	Val  interface{} `json:"val"`
}

var (
	vMu      sync.Mutex
	vVector  []vVecEntry
	vPos     int
	vLog     []string
	vParams  = map[string]int{}
	vMissing bool
)

func vLoadVector(path string) {
	vVector, vPos, vLog, vMissing = nil, 0, nil, false
	b, err := os.ReadFile(path)
	if err != nil {
		panic(err)
	}
	var doc struct {
		Vector []vVecEntry    `json:"vector"`
		Params map[string]int `json:"params"`
	}
	dec := json.NewDecoder(bytes.NewReader(b))
	dec.UseNumber() // 64-bit instants do not survive float64
	if err := dec.Decode(&doc); err != nil {
		panic(err)
	}
	vVector = doc.Vector
	vHaveFirst = false
	vParams = doc.Params
	if vParams == nil {
		vParams = map[string]int{}
	}
}

func vNext(tag, kind string) (interface{}, bool) {
	vMu.Lock()
	defer vMu.Unlock()
	if vPos >= len(vVector) {
		// beyond the recorded path: default values
		vMissing = true
		vLog = append(vLog, "X:vector-exhausted:"+tag)
		return nil, false
	}
	e := vVector[vPos]
	if e.Tag != tag {
		vLog = append(vLog, fmt.Sprintf("X:vector-mismatch:want=%s:got=%s", e.Tag, tag))
		vMissing = true
		return nil, false
	}
	vPos++
	return e.Val, true
}

func vEmit(s string) {
	vMu.Lock()
	vLog = append(vLog, s)
	vMu.Unlock()
}

func nondetBool(tag string) bool {
	v, ok := vNext(tag, "bool")
	if !ok {
		return false
	}
	b, _ := v.(bool)
	return b
}

func nondetInt(tag string) int {
	v, ok := vNext(tag, "int")
	if !ok {
		return 0
	}
	return int(vNum(v))
}

// vNum: an integer of the witness (kept as json.Number so that 64-bit values stay exact).
func vNum(v interface{}) int64 {
	switch x := v.(type) {
	case json.Number:
		if i, err := x.Int64(); err == nil {
			return i
		}
		f, _ := x.Float64()
		return int64(f)
	case float64:
		return int64(x)
	}
	return 0
}

func nondetByte(tag string) byte { return byte(nondetInt(tag)) }

func nondetRange(tag string, lo, hi int) int {
	v, ok := vNext(tag, "int")
	if !ok {
		return lo
	}
	return int(vNum(v))
}

func nondetChoice(tag string, n int) int { return nondetRange(tag, 0, n-1) }

func nondetString(tag string, cap int) string {
	v, ok := vNext(tag, "string")
	if !ok {
		return ""
	}
	s, _ := v.(string)
	return s
}

// nondetJSON: an arbitrary JSON document (symbolic lazy tree in the engine).
// literals: "key=lit1|lit2;key2=lit" candidate string values per object key.
func nondetJSON(tag string, depth, strCap, maxArr int, literals string) []byte {
	v, ok := vNext(tag, "string")
	if !ok {
		return []byte("null")
	}
	s, _ := v.(string)
	return []byte(s)
}

// vJSONText: a constant JSON text as bytes.
func vJSONText(s string) []byte { return []byte(s) }

func vParam(name string, def int) int {
	if v, ok := vParams[name]; ok {
		return v
	}
	return def
}

func vAssume(c bool) {
	if !c {
		vEmit("X:assumption-violated")
	}
}

func vAssert(c bool, label string) {
	vEmit("A:" + label)
	if !c {
		vEmit("F:" + label)
	}
}

func vReach(label string) { vEmit("R:" + label) }
func vTrace(label string) { vEmit("T:" + label) }

func vExpectPanic(f func()) (panicked bool) {
	defer func() {
		if r := recover(); r != nil {
			panicked = true
		}
	}()
	f()
	return false
}

var vClock int64
var (
	vHaveFirst    bool
	vFirst, vBase int64
)

func vNow() int64 {
	// replay: the witness carries the instants the harness read
	vMu.Lock()
	if vPos < len(vVector) && vVector[vPos].Tag == "clock" {
		// the witness's clock starts at the first reading; natively that instant is "now", so that the
		// library's own time.Now() and the harness's readings are on one time line
		w := vNum(vVector[vPos].Val)
		vPos++
		if !vHaveFirst {
			vHaveFirst, vFirst, vBase = true, w, time.Now().UnixNano()
		}
		vMu.Unlock()
		return vBase + (w - vFirst)
	}
	vMu.Unlock()
	vMu.Lock()
	defer vMu.Unlock()
	n := time.Now().UnixNano()
	if n <= vClock {
		n = vClock + 1
	}
	vClock = n
	return n
}

func vTimeOf(t int64) time.Time  { return time.Unix(0, t) }
func vInstant(t time.Time) int64 { return t.UnixNano() }
func vConcat(a, b string) string { return a + b }

// vStrHas reports whether s contains the byte c (c != 0).
func vStrHas(s string, c byte) bool {
	for i := 0; i < len(s); i++ {
		if s[i] == c {
			return true
		}
	}
	return false
}

func vQuiesce() { time.Sleep(150 * time.Millisecond) }

// vSettle waits until background goroutines have settled, including their short timeouts.
func vSettle() { time.Sleep(600 * time.Millisecond) }

func vThreadsLive() int                { return -1 }
func vDeepEqual(a, b interface{}) bool { return reflect.DeepEqual(a, b) }

// nondetJSONMut: a valid encoding (template) with up to k arbitrary structural mutations.
func nondetJSONMut(tag, base string, k, cap int) []byte {
	v, ok := vNext(tag, "string")
	if !ok {
		return []byte("null")
	}
	s, _ := v.(string)
	return []byte(s)
}

// nondetOneOf: one of the '|'-separated literals (a single symbolic value in the engine, no path split).
func nondetOneOf(tag string, lits string) string {
	i := nondetInt(tag)
	n := 0
	start := 0
	for j := 0; j <= len(lits); j++ {
		if j == len(lits) || lits[j] == '|' {
			if n == i {
				return lits[start:j]
			}
			n++
			start = j + 1
		}
	}
	return lits[:0]
}

// ---- abstract byte streams (native implementation: real bytes) -------------------

type vStreamT struct {
	buf    []byte
	closed bool
}

var vStreams []*vStreamT

func vStreamNew(tag string) int {
	vStreams = append(vStreams, &vStreamT{})
	return len(vStreams) - 1
}

// vStreamPut makes one frame (JSON text b padded with leading blanks to size bytes, the last one a newline) available.
func vStreamPut(s int, b []byte, size int) {
	if size < len(b)+1 {
		vEmit("X:assumption-violated:frame-size")
		size = len(b) + 1
	}
	st := vStreams[s]
	for i := 0; i < size-len(b)-1; i++ {
		st.buf = append(st.buf, ' ')
	}
	st.buf = append(st.buf, b...)
	st.buf = append(st.buf, '\n')
}

func vStreamPutGarbage(s int, size int) {
	st := vStreams[s]
	for i := 0; i < size; i++ {
		st.buf = append(st.buf, '#')
	}
}

func vStreamClose(s int)     { vStreams[s].closed = true }
func vStreamAvail(s int) int { return len(vStreams[s].buf) }
func vStreamEOF(s int) bool  { return vStreams[s].closed && len(vStreams[s].buf) == 0 }

// vStreamRead delivers between 1 and min(len(p), available) bytes into p (0 when nothing is available).
func vStreamRead(s int, p []byte, tag string) int {
	st := vStreams[s]
	if len(st.buf) == 0 || len(p) == 0 {
		return 0
	}
	n := nondetInt(tag)
	if n < 1 {
		n = 1
	}
	if n > len(p) {
		n = len(p)
	}
	if n > len(st.buf) {
		n = len(st.buf)
	}
	copy(p, st.buf[:n])
	st.buf = st.buf[n:]
	return n
}

func vAbuf(n int) []byte { return make([]byte, n) }

// vStreamReadAll delivers min(len(p), available) bytes.
func vStreamReadAll(s int, p []byte) int {
	st := vStreams[s]
	n := len(p)
	if n > len(st.buf) {
		n = len(st.buf)
	}
	copy(p, st.buf[:n])
	st.buf = st.buf[n:]
	return n
}

// vSpins: number of background goroutines the engine retired because they were busy-looping
// (not observable natively: 0).
func vSpins() int { return 0 }

// vJSONCanon: the JSON text with object keys sorted and insignificant space removed.
func vJSONCanon(b []byte) string {
	dec := json.NewDecoder(bytes.NewReader(b))
	dec.UseNumber()
	var v interface{}
	if err := dec.Decode(&v); err != nil {
		return "!" + err.Error()
	}
	out, err := json.Marshal(v)
	if err != nil {
		return "!" + err.Error()
	}
	return string(out)
}

// vStreamPutSplit: the frame of `whole` (size bytes, the last one a newline) with its padding blanks placed
// inside the text, directly in front of the nested value `inner` (which occurs literally in whole).
func vStreamPutSplit(s int, whole, inner []byte, size int) {
	at := bytes.Index(whole, inner)
	if at < 0 || size < len(whole)+1 {
		vEmit("X:assumption-violated:split-frame")
		vStreamPut(s, whole, size)
		return
	}
	st := vStreams[s]
	st.buf = append(st.buf, whole[:at]...)
	for i := 0; i < size-len(whole)-1; i++ {
		st.buf = append(st.buf, ' ')
	}
	st.buf = append(st.buf, whole[at:]...)
	st.buf = append(st.buf, '\n')
}

// vPreemptOn / vPreemptOff delimit the phase in which the engine explores pre-emptions (no-ops natively).
func vPreemptOn()  {}
func vPreemptOff() {}

// vSchedPolicy selects the engine's thread-choice policy for the following phase (no-op natively).
func vSchedPolicy(n int) {}
