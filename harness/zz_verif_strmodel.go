package lime

import (
	"errors"
	"fmt"
	"strings"
	"sync/atomic"
	"time"
)

// ---- translator validation: the engine's models of package strings --------------------------------
// Each modelled function is compared, for every string up to the capacity, with a plain reference
// loop that the engine executes from its SSA (natively: the real function against the same loop).
// The references index with loop counters only.

func vhRefMatch(s, sub string, i int) bool {
	if i+len(sub) > len(s) {
		return false
	}
	for j := 0; j < len(sub); j++ {
		if s[i+j] != sub[j] {
			return false
		}
	}
	return true
}

func vhRefIndex(s, sub string) int {
	for i := 0; i < len(s); i++ {
		if vhRefMatch(s, sub, i) {
			return i
		}
	}
	return -1
}

func vhRefLastIndex(s, sub string) int {
	last := -1
	for i := 0; i < len(s); i++ {
		if vhRefMatch(s, sub, i) {
			last = i
		}
	}
	return last
}

func vhRefIsSpace(c byte) bool {
	return c == ' ' || c == '\t' || c == '\n' || c == '\r' || c == '\v' || c == '\f'
}

func vhRefLowerByte(c byte) byte {
	if c >= 'A' && c <= 'Z' {
		return c + 32
	}
	return c
}

// vhRefIsSlice: r == s[lo:hi].
func vhRefIsSlice(r, s string, lo, hi int) bool {
	if len(r) != hi-lo {
		return false
	}
	for l0 := 0; l0 <= len(s); l0++ {
		if l0 != lo {
			continue
		}
		for k := 0; k < len(r); k++ {
			if r[k] != s[l0+k] {
				return false
			}
		}
	}
	return true
}

func HarnessStringsModel() {
	cap := vParam("cap", 4)
	s := nondetString("s", cap)
	switch vhChoice("fn", 10) {
	case 0:
		vAssert(strings.Contains(s, "/") == (vhRefIndex(s, "/") >= 0), "strmodel:contains")
		vAssert(strings.Contains(s, "ab") == (vhRefIndex(s, "ab") >= 0), "strmodel:contains-two-bytes")
		vAssert(strings.ContainsRune(s, '+') == (vhRefIndex(s, "+") >= 0), "strmodel:containsrune")
	case 1:
		vAssert(strings.Index(s, "+") == vhRefIndex(s, "+"), "strmodel:index")
		vAssert(strings.Index(s, "ab") == vhRefIndex(s, "ab"), "strmodel:index-two-bytes")
		vAssert(strings.IndexByte(s, '/') == vhRefIndex(s, "/"), "strmodel:indexbyte")
	case 2:
		vAssert(strings.LastIndex(s, "/") == vhRefLastIndex(s, "/"), "strmodel:lastindex")
		vAssert(strings.LastIndex(s, "ab") == vhRefLastIndex(s, "ab"), "strmodel:lastindex-two-bytes")
	case 3:
		li := vhRefLastIndex(s, "ab")
		vAssert(strings.HasSuffix(s, "ab") == (li >= 0 && li+2 == len(s)), "strmodel:hassuffix")
		vAssert(strings.HasPrefix(s, "ab") == vhRefMatch(s, "ab", 0), "strmodel:hasprefix")
	case 4:
		lo := 0
		if vhRefMatch(s, "ab", 0) {
			lo = 2
		}
		vAssert(vhRefIsSlice(strings.TrimPrefix(s, "ab"), s, lo, len(s)), "strmodel:trimprefix")
	case 5:
		hi := len(s)
		if li := vhRefLastIndex(s, "/"); li >= 0 && li+1 == len(s) {
			hi = li
		}
		vAssert(vhRefIsSlice(strings.TrimSuffix(s, "/"), s, 0, hi), "strmodel:trimsuffix")
	case 6:
		before, after, found := strings.Cut(s, "/")
		i := vhRefIndex(s, "/")
		if i < 0 {
			vAssert(!found && before == s && after == "", "strmodel:cut-absent")
		} else {
			vAssert(found && vhRefIsSlice(before, s, 0, i) && vhRefIsSlice(after, s, i+1, len(s)), "strmodel:cut-present")
		}
	case 7:
		lo, leading := 0, true
		for i := 0; i < len(s); i++ {
			if leading && vhRefIsSpace(s[i]) {
				lo = i + 1
			} else {
				leading = false
			}
		}
		hi := lo
		for i := 0; i < len(s); i++ {
			if i >= lo && !vhRefIsSpace(s[i]) {
				hi = i + 1
			}
		}
		vAssert(vhRefIsSlice(strings.TrimSpace(s), s, lo, hi), "strmodel:trimspace")
	case 8:
		l := strings.ToLower(s)
		ok := len(l) == len(s)
		for i := 0; ok && i < len(s); i++ {
			if l[i] != vhRefLowerByte(s[i]) {
				ok = false
			}
		}
		vAssert(ok, "strmodel:tolower")
		t := nondetString("t", cap)
		same := len(s) == len(t)
		for i := 0; same && i < len(s); i++ {
			if vhRefLowerByte(s[i]) != vhRefLowerByte(t[i]) {
				same = false
			}
		}
		vAssert(strings.EqualFold(s, t) == same, "strmodel:equalfold")
	default:
		n := 0
		for i := 0; i < len(s); i++ {
			if s[i] == '/' {
				n++
			}
		}
		vAssert(strings.Count(s, "/") == n, "strmodel:count")
		parts := strings.Split(s, "/")
		vAssert(len(parts) == n+1, "strmodel:split-pieces")
	}
	vReach("strmodel:compared")
}

// HarnessStdModel: sanity of the engine's models of typed atomics, timers, time.Since and
// errors.Unwrap against their documented behaviour (natively: the real functions).
func HarnessStdModel() {
	switch vhChoice("fn", 4) {
	case 0:
		var b atomic.Bool
		var n atomic.Int32
		vAssert(!b.Load() && n.Load() == 0, "stdmodel:atomic-zero-values")
		b.Store(true)
		vAssert(b.Load(), "stdmodel:atomic-bool-store-load")
		vAssert(b.CompareAndSwap(true, false) && !b.Load(), "stdmodel:atomic-bool-cas")
		vAssert(!b.CompareAndSwap(true, false), "stdmodel:atomic-bool-cas-mismatch")
		k := int32(nondetRange("k", -3, 3))
		vAssert(n.Add(k) == k && n.Add(1) == k+1 && n.Swap(7) == k+1 && n.Load() == 7, "stdmodel:atomic-int-add-swap")
		done := make(chan struct{})
		go func() { n.Add(1); close(done) }()
		<-done
		vAssert(n.Load() == 8, "stdmodel:atomic-int-shared")
	case 1:
		t := time.NewTimer(50 * time.Millisecond)
		vAssert(t.Stop(), "stdmodel:timer-stop-before-firing")
		fired := false
		select {
		case <-t.C:
			fired = true
		case <-time.After(100 * time.Millisecond):
		}
		vAssert(!fired, "stdmodel:stopped-timer-does-not-fire")
	case 2:
		t := time.NewTimer(10 * time.Millisecond)
		fired := false
		select {
		case <-t.C:
			fired = true
		case <-time.After(200 * time.Millisecond):
		}
		vAssert(fired, "stdmodel:timer-fires-before-a-later-one")
		vAssert(!t.Stop(), "stdmodel:stop-after-firing-reports-false")
		t.Reset(10 * time.Millisecond)
		<-t.C
	default:
		start := time.Now()
		vAssert(time.Since(start) >= 0, "stdmodel:since-is-not-negative")
		vAssert(time.Until(start) <= 0, "stdmodel:until-a-past-instant-is-not-positive")
		inner := errors.New("inner")
		w := fmt.Errorf("outer: %w", inner)
		vAssert(errors.Unwrap(w) == inner && errors.Unwrap(inner) == nil, "stdmodel:unwrap")
	}
	vReach("stdmodel:compared")
}
