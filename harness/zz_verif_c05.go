package lime

import (
	"context"
	"time"
)

// ---- C05: command responses are matched to their requests --------------------------------

// vhRespTransport: the peer answers with a scripted sequence of response commands, then stays silent.
type vhRespTransport struct {
	vhTransport
	script []*ResponseCommand
	pos    int
	gateAt int // script position that waits for the gate (-1: none)
	gate   chan struct{}
}

func (t *vhRespTransport) Receive(ctx context.Context) (envelope, error) {
	if t.pos < len(t.script) {
		if t.gate != nil && t.pos == t.gateAt {
			select {
			case <-t.gate:
			case <-ctx.Done():
				return nil, ctx.Err()
			}
		}
		r := t.script[t.pos]
		t.pos++
		return r, nil
	}
	<-ctx.Done()
	return nil, ctx.Err()
}

type vhCmdResult struct {
	resp *ResponseCommand
	err  error
	done bool
}

func HarnessC05Match() {
	nreq := vParam("requesters", 2)
	nresp := vParam("responses", 2)
	// everything nondeterministic is drawn up front (the goroutines below are deterministic given these)
	ids := make([]string, nreq)
	for i := 0; i < nreq; i++ {
		ids[i] = nondetOneOf("req.id", "a|b")
	}
	t := &vhRespTransport{}
	t.enc, t.comp = SessionEncryptionNone, SessionCompressionNone
	for i := 0; i < nresp; i++ {
		t.script = append(t.script, &ResponseCommand{Command: Command{Envelope: Envelope{ID: nondetOneOf("resp.id", "a|b|zz")}, Method: CommandMethodGet},
			Status: CommandStatusSuccess})
	}
	c := newChannel(t, nresp+1)
	c.sessionID = vhSID
	results := make([]*vhCmdResult, nreq)
	reqs := make([]*RequestCommand, nreq)
	for i := 0; i < nreq; i++ {
		results[i] = &vhCmdResult{}
		reqs[i] = &RequestCommand{Command: Command{Envelope: Envelope{ID: ids[i]}, Method: CommandMethodGet}}
	}
	order := vParam("order", 0)
	if order == 0 {
		// requests are registered before the peer's answers are read
		c.state = SessionStateEstablished
	} else {
		c.setState(SessionStateEstablished)
	}
	for i := 0; i < nreq; i++ {
		i := i
		go func() {
			ctx, cancel := context.WithTimeout(context.Background(), 100*time.Millisecond)
			defer cancel()
			results[i].resp, results[i].err = c.ProcessCommand(ctx, reqs[i])
			results[i].done = true
		}()
	}
	if order == 0 {
		vQuiesce()
		c.startRcv.Do(c.startReceiver)
	}
	vSettle()
	vReach("c05:settled")
	// collect what surfaced on the response stream
	var surfaced []*ResponseCommand
	for len(c.inRespCmdChan) > 0 {
		surfaced = append(surfaced, <-c.inRespCmdChan)
	}
	for i := 0; i < nreq; i++ {
		vAssert(results[i].done, "c05:every-request-completes")
		if !results[i].done {
			continue
		}
		if results[i].err == nil {
			vAssert(results[i].resp != nil, "c05:success-carries-a-response")
			if results[i].resp != nil {
				vAssert(results[i].resp.ID == reqs[i].ID, "c05:request-completes-with-its-own-response")
			}
		}
	}
	// every scripted response went to exactly one place: a requester with that id, or the response stream
	for j := 0; j < len(t.script); j++ {
		holders := 0
		for i := 0; i < nreq; i++ {
			if results[i].done && results[i].resp == t.script[j] {
				holders++
			}
		}
		for k := 0; k < len(surfaced); k++ {
			if surfaced[k] == t.script[j] {
				holders++
			}
		}
		vAssert(holders <= 1, "c05:response-delivered-at-most-once")
		if t.pos > j {
			// it was read by the receiver: it must not be lost, except when swallowed by a requester that timed out meanwhile
			swallowed := false
			for i := 0; i < nreq; i++ {
				if results[i].done && results[i].err != nil && reqs[i].ID == t.script[j].ID {
					swallowed = true
				}
			}
			vAssert(holders == 1 || swallowed, "c05:response-is-not-lost")
		}
		// an unmatched response surfaces on the response stream, never with an unrelated caller
		matchesSome := false
		for i := 0; i < nreq; i++ {
			if reqs[i].ID == t.script[j].ID {
				matchesSome = true
			}
		}
		if !matchesSome && t.pos > j {
			onStream := false
			for k := 0; k < len(surfaced); k++ {
				if surfaced[k] == t.script[j] {
					onStream = true
				}
			}
			vAssert(onStream, "c05:unmatched-response-surfaces-on-the-stream")
		}
	}
	// identifiers are released
	vAssert(len(c.processingCmds) == 0, "c05:pending-table-empty-when-all-returned")
	// the receiver is not stuck on a requester's reply channel (it is waiting for the silent peer)
	vAssert(t.pos == len(t.script), "c05:receiver-consumed-the-whole-script")
}

// HarnessC05Reuse: a pending id is refused without disturbing the pending request; ids are reusable afterwards.
func HarnessC05Reuse() {
	t := &vhRespTransport{}
	t.enc, t.comp = SessionEncryptionNone, SessionCompressionNone
	id := nondetString("id", 2)
	vAssume(id != "")
	resp := &ResponseCommand{Command: Command{Envelope: Envelope{ID: id}, Method: CommandMethodGet}, Status: CommandStatusSuccess}
	resp2 := &ResponseCommand{Command: Command{Envelope: Envelope{ID: id}, Method: CommandMethodSet}, Status: CommandStatusSuccess}
	t.script = []*ResponseCommand{resp, resp2}
	t.gateAt = 1
	t.gate = make(chan struct{})
	c := newChannel(t, 2)
	c.state = SessionStateEstablished
	first := &vhCmdResult{}
	go func() {
		ctx, cancel := context.WithTimeout(context.Background(), 5*time.Second)
		defer cancel()
		first.resp, first.err = c.ProcessCommand(ctx, &RequestCommand{Command: Command{Envelope: Envelope{ID: id}, Method: CommandMethodGet}})
		first.done = true
	}()
	vQuiesce() // the first request is registered and waits
	ctx2, cancel2 := context.WithTimeout(context.Background(), 5*time.Second)
	_, err2 := c.ProcessCommand(ctx2, &RequestCommand{Command: Command{Envelope: Envelope{ID: id}, Method: CommandMethodGet}})
	cancel2()
	vReach("c05:second-request-returned")
	vAssert(err2 != nil, "c05:pending-id-is-refused")
	vAssert(len(t.sent) == 1, "c05:refused-request-is-not-sent")
	vAssert(!first.done, "c05:pending-request-undisturbed-by-refusal")
	c.startRcv.Do(c.startReceiver)
	vQuiesce()
	vAssert(first.done && first.err == nil && first.resp == resp, "c05:pending-request-still-completes")
	// the id is reusable once its request completed
	third := &vhCmdResult{}
	go func() {
		ctx3, cancel3 := context.WithTimeout(context.Background(), 5*time.Second)
		defer cancel3()
		third.resp, third.err = c.ProcessCommand(ctx3, &RequestCommand{Command: Command{Envelope: Envelope{ID: id}, Method: CommandMethodSet}})
		third.done = true
	}()
	vQuiesce()
	close(t.gate)
	vQuiesce()
	vAssert(third.done && third.err == nil && third.resp == resp2, "c05:id-reusable-after-completion")
}

// HarnessC05SendFail: a request whose send fails (the session stays established) leaves no pending
// entry behind: the identifier can be used again at once.
func HarnessC05SendFail() {
	t := &vhRespTransport{}
	t.enc, t.comp = SessionEncryptionNone, SessionCompressionNone
	t.failSends = 1
	id := nondetString("id", 2)
	vAssume(id != "")
	resp := &ResponseCommand{Command: Command{Envelope: Envelope{ID: id}, Method: CommandMethodGet}, Status: CommandStatusSuccess}
	t.script = []*ResponseCommand{resp}
	t.gateAt = 0
	t.gate = make(chan struct{})
	c := newChannel(t, 2)
	c.state = SessionStateEstablished
	c.startRcv.Do(c.startReceiver)
	ctx, cancel := context.WithTimeout(context.Background(), 5*time.Second)
	defer cancel()
	_, err1 := c.ProcessCommand(ctx, &RequestCommand{Command: Command{Envelope: Envelope{ID: id}, Method: CommandMethodGet}})
	vReach("c05:first-attempt-returned")
	if err1 == nil {
		return
	}
	vAssert(len(t.sent) == 0, "c05:failed-send-wrote-nothing")
	vAssert(len(c.processingCmds) == 0, "c05:failed-send-releases-the-identifier")
	// the retry goes through
	second := &vhCmdResult{}
	go func() {
		second.resp, second.err = c.ProcessCommand(ctx, &RequestCommand{Command: Command{Envelope: Envelope{ID: id}, Method: CommandMethodGet}})
		second.done = true
	}()
	vQuiesce()
	close(t.gate)
	vQuiesce()
	vAssert(second.done && second.err == nil && second.resp == resp, "c05:retry-with-the-same-id-succeeds")
}

// vhLateTransport: the first send reaches the peer, which answers at once, but the local write still
// reports an error (a write timeout after the bytes left, a connection reset right after); afterwards
// the peer goes on with one more envelope.
type vhLateTransport struct {
	vhRespTransport
	tail     envelope
	tailSent bool
}

func (t *vhLateTransport) Send(ctx context.Context, e envelope) error {
	if t.failSends > 0 {
		t.failSends--
		close(t.gate)
		vQuiesce() // the answer arrives while the sender is still inside its write
		return errVhStub
	}
	return t.vhRespTransport.Send(ctx, e)
}

func (t *vhLateTransport) Receive(ctx context.Context) (envelope, error) {
	if t.pos < len(t.script) {
		return t.vhRespTransport.Receive(ctx)
	}
	if t.tail != nil && !t.tailSent {
		t.tailSent = true
		return t.tail, nil
	}
	<-ctx.Done()
	return nil, ctx.Err()
}

// HarnessC05LateResponse: a response that arrives for a request whose caller has already given up
// (its send reported an error) neither blocks the receiver nor stays registered: what the peer sends
// next is still delivered.
func HarnessC05LateResponse() {
	t := &vhLateTransport{}
	t.enc, t.comp = SessionEncryptionNone, SessionCompressionNone
	t.failSends = 1
	resp := &ResponseCommand{Command: Command{Envelope: Envelope{ID: "q"}, Method: CommandMethodGet}, Status: CommandStatusSuccess}
	t.script = []*ResponseCommand{resp}
	t.gateAt = 0
	t.gate = make(chan struct{})
	t.tail = vhEnvelopeOfKind(0, "after")
	c := newChannel(t, 1)
	c.state = SessionStateEstablished
	c.startRcv.Do(c.startReceiver)
	ctx, cancel := context.WithTimeout(context.Background(), 5*time.Second)
	defer cancel()
	_, err1 := c.ProcessCommand(ctx, &RequestCommand{Command: Command{Envelope: Envelope{ID: "q"}, Method: CommandMethodGet}})
	vReach("c05:late-response-attempt-returned")
	vAssert(err1 != nil, "c05:failed-send-is-reported")
	vQuiesce()
	vAssert(len(c.processingCmds) == 0, "c05:failed-send-releases-the-identifier")
	vAssert(t.tailSent && len(c.inMsgChan) == 1, "c05:receiver-survives-a-response-nobody-waits-for")
}

// vhOverlapTransport: the peer answers the first request at once, while the local write of that request
// has not returned yet (the application, seeing nothing, issues the identifier again meanwhile).
type vhOverlapTransport struct {
	vhRespTransport
	sends    int
	gate0    chan struct{}
	secondGo chan struct{}
}

func (t *vhOverlapTransport) Send(ctx context.Context, e envelope) error {
	err := t.vhRespTransport.Send(ctx, e)
	t.sends++
	if t.sends == 1 {
		close(t.gate0)
		close(t.secondGo)
		vQuiesce()
	}
	return err
}

func (t *vhOverlapTransport) Receive(ctx context.Context) (envelope, error) {
	if t.pos == 0 {
		select {
		case <-t.gate0:
		case <-ctx.Done():
			return nil, ctx.Err()
		}
	}
	return t.vhRespTransport.Receive(ctx)
}

// HarnessC05Overlap: an identifier is used again as soon as the registry accepts it - here while the
// first call has been answered but has not returned yet (its write is still returning). Whatever the
// registry decides for the second call (reject it, or accept it), an accepted call whose response
// arrives while it waits completes with that response; the first call is not disturbed.
func HarnessC05Overlap() {
	t := &vhOverlapTransport{gate0: make(chan struct{}), secondGo: make(chan struct{})}
	t.enc, t.comp = SessionEncryptionNone, SessionCompressionNone
	r1 := &ResponseCommand{Command: Command{Envelope: Envelope{ID: "x"}, Method: CommandMethodGet}, Status: CommandStatusSuccess}
	r2 := &ResponseCommand{Command: Command{Envelope: Envelope{ID: "x"}, Method: CommandMethodGet}, Status: CommandStatusSuccess}
	t.script = []*ResponseCommand{r1, r2}
	t.gateAt = 1
	t.gate = make(chan struct{})
	c := newChannel(t, 2)
	c.state = SessionStateEstablished
	c.startRcv.Do(c.startReceiver)
	first, second := &vhCmdResult{}, &vhCmdResult{}
	go func() {
		<-t.secondGo
		for k := 0; k < 3 && !second.done; k++ {
			ctx, cancel := context.WithTimeout(context.Background(), 300*time.Millisecond)
			before := len(t.sent)
			resp, err := c.ProcessCommand(ctx, &RequestCommand{Command: Command{Envelope: Envelope{ID: "x"}, Method: CommandMethodGet}})
			cancel()
			if len(t.sent) > before {
				// accepted and written to the wire: this is the call the second answer belongs to
				second.resp, second.err, second.done = resp, err, true
			} else {
				time.Sleep(10 * time.Millisecond)
			}
		}
	}()
	ctx, cancel := context.WithTimeout(context.Background(), time.Second)
	defer cancel()
	first.resp, first.err = c.ProcessCommand(ctx, &RequestCommand{Command: Command{Envelope: Envelope{ID: "x"}, Method: CommandMethodGet}})
	first.done = true
	vQuiesce()
	if len(t.sent) >= 2 {
		// the peer answers the second request while it waits
		close(t.gate)
	}
	vSettle()
	vReach("c05:overlap-settled")
	vAssert(first.err == nil && first.resp == r1, "c05:first-request-completes-with-its-response")
	if second.done {
		vReach("c05:second-request-accepted")
		vAssert(second.err == nil && second.resp == r2, "c05:accepted-request-completes-with-the-response-that-arrived-while-it-waited")
	}
}
