package lime

import (
	"bufio"
	"bytes"
	"encoding/binary"
	"net"
	"net/http"
	"net/url"
	"time"

	"github.com/gorilla/websocket"
)

// ---- a real gorilla connection (server side) over a harness connection -----------------------
//
// Natively vWSConn runs the real gorilla code: the handshake is done against a canned request, and an
// adapter translates between the harness connection (which speaks the same newline-delimited JSON
// frames as the TCP harnesses) and WebSocket frames: each outbound message's payload is handed to the
// harness connection in one Write, each inbound line becomes one masked text frame once its last byte
// (the newline) has arrived. The engine replaces vWSConn by its model of websocket.Conn (engine/ws.go).

type vhWSAdapter struct {
	inner net.Conn
	armed bool
	rbuf  []byte // inbound payload bytes not yet framed
	out   []byte // framed bytes ready for gorilla
}

func (a *vhWSAdapter) Write(p []byte) (int, error) {
	if !a.armed {
		return len(p), nil // the handshake response
	}
	if len(p) < 2 {
		return len(p), nil
	}
	if p[0]&0x0f >= 8 {
		return len(p), nil // control frames (close, ping, pong) are not part of the modelled traffic
	}
	hdr := 2
	switch p[1] & 0x7f {
	case 126:
		hdr = 4
	case 127:
		hdr = 10
	}
	if _, err := a.inner.Write(p[hdr:]); err != nil {
		return 0, err
	}
	return len(p), nil
}

func vhWSFrame(payload []byte) []byte {
	f := []byte{0x81}
	n := len(payload)
	switch {
	case n < 126:
		f = append(f, 0x80|byte(n))
	case n < 65536:
		f = append(f, 0x80|126, 0, 0)
		binary.BigEndian.PutUint16(f[2:], uint16(n))
	default:
		f = append(f, 0x80|127, 0, 0, 0, 0, 0, 0, 0, 0)
		binary.BigEndian.PutUint64(f[2:], uint64(n))
	}
	f = append(f, 0, 0, 0, 0) // masking key 0: the payload goes as it is
	return append(f, payload...)
}

func (a *vhWSAdapter) Read(p []byte) (int, error) {
	for len(a.out) == 0 {
		if i := bytes.IndexByte(a.rbuf, '\n'); i >= 0 {
			a.out = vhWSFrame(a.rbuf[:i+1])
			a.rbuf = append([]byte{}, a.rbuf[i+1:]...)
			break
		}
		tmp := make([]byte, 1<<20)
		n, err := a.inner.Read(tmp)
		a.rbuf = append(a.rbuf, tmp[:n]...)
		if err != nil {
			return 0, err
		}
	}
	n := copy(p, a.out)
	a.out = a.out[n:]
	return n, nil
}

func (a *vhWSAdapter) Close() error         { return a.inner.Close() }
func (a *vhWSAdapter) LocalAddr() net.Addr  { return a.inner.LocalAddr() }
func (a *vhWSAdapter) RemoteAddr() net.Addr { return a.inner.RemoteAddr() }
func (a *vhWSAdapter) SetDeadline(t time.Time) error {
	if !a.armed {
		return nil
	}
	return a.inner.SetDeadline(t)
}
func (a *vhWSAdapter) SetReadDeadline(t time.Time) error {
	if !a.armed {
		return nil
	}
	return a.inner.SetReadDeadline(t)
}
func (a *vhWSAdapter) SetWriteDeadline(t time.Time) error {
	if !a.armed {
		return nil
	}
	return a.inner.SetWriteDeadline(t)
}

type vhHijackWriter struct {
	conn net.Conn
	h    http.Header
}

func (w *vhHijackWriter) Header() http.Header         { return w.h }
func (w *vhHijackWriter) Write(p []byte) (int, error) { return len(p), nil }
func (w *vhHijackWriter) WriteHeader(int)             {}
func (w *vhHijackWriter) Hijack() (net.Conn, *bufio.ReadWriter, error) {
	return w.conn, bufio.NewReadWriter(bufio.NewReader(w.conn), bufio.NewWriter(w.conn)), nil
}

// vWSConn: a server-side websocket.Conn whose network connection is conn.
func vWSConn(conn net.Conn) *websocket.Conn {
	a := &vhWSAdapter{inner: conn}
	up := websocket.Upgrader{ReadBufferSize: 1 << 16, WriteBufferSize: 1 << 20, CheckOrigin: func(*http.Request) bool { return true }}
	req := &http.Request{Method: "GET", URL: &url.URL{Path: "/"}, Host: "vh", Header: http.Header{
		"Connection":             {"Upgrade"},
		"Upgrade":                {"websocket"},
		"Sec-Websocket-Version":  {"13"},
		"Sec-Websocket-Key":      {"dGhlIHNhbXBsZSBub25jZQ=="},
		"Sec-Websocket-Protocol": {"lime"},
	}}
	c, err := up.Upgrade(&vhHijackWriter{conn: a, h: http.Header{}}, req, nil)
	if err != nil {
		panic("vWSConn: " + err.Error())
	}
	a.armed = true
	return c
}

// vStreamPutBadMsg makes one whole message of size bytes available that is not JSON.
func vStreamPutBadMsg(s int, size int) {
	st := vStreams[s]
	for i := 0; i < size-1; i++ {
		st.buf = append(st.buf, '#')
	}
	st.buf = append(st.buf, '\n')
}
