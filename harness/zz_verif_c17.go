package lime

import (
	"context"
)

// ---- C17: concurrent sessions are isolated and handlers see their own session ---------------

// vhCoopClient: a scripted transport whose peer is a well-behaved client: new, authenticate as guest
// (echoing the id the server announced), then k data messages, then silence.
type vhCoopClient struct {
	vhTransport
	name     string
	msgs     int
	sentMsgs []*Message
	pos      int
}

func (t *vhCoopClient) Receive(ctx context.Context) (envelope, error) {
	if t.closed {
		return nil, errVhStub
	}
	p := t.pos
	t.pos++
	switch {
	case p == 0:
		return &Session{State: SessionStateNew}, nil
	case p == 1:
		id := ""
		if last := vhLastSent(&t.vhTransport); last != nil {
			id = last.ID
		}
		s := &Session{Envelope: Envelope{ID: id, From: Node{Identity{t.name, "dom"}, "dev"}}, State: SessionStateAuthenticating}
		s.SetAuthentication(&GuestAuthentication{})
		return s, nil
	case p < 2+t.msgs:
		m := &Message{Envelope: Envelope{ID: vConcat(t.name, []string{"-msg0", "-msg1", "-msg2"}[p-2])}, Type: MediaTypeTextPlain(), Content: TextDocument("hi")}
		t.sentMsgs = append(t.sentMsgs, m)
		return m, nil
	}
	<-ctx.Done()
	return nil, ctx.Err()
}

type vhSeen struct {
	msg       *Message
	sessionID string
	hasID     bool
	local     Node
	remote    Node
	sender    Sender
}

func HarnessC17Sessions() {
	n := 2
	names := []string{"alice", "bob"}
	var seen []vhSeen
	var estIDs []string
	var estChans []*ServerChannel
	regOf := map[string]Node{}
	cfg := &ServerConfig{Node: Node{Identity{"postmaster", "srv"}, "i1"}, CompOpts: []SessionCompression{SessionCompressionNone},
		EncryptOpts: []SessionEncryption{SessionEncryptionNone}, SchemeOpts: []AuthenticationScheme{AuthenticationSchemeGuest},
		Backlog: n, ChannelBufferSize: vParam("buf", 1),
		Authenticate: func(ctx context.Context, id Identity, a Authentication) (*AuthenticationResult, error) {
			return MemberAuthenticationResult(), nil
		},
		Register: func(ctx context.Context, candidate Node, c *ServerChannel) (Node, error) {
			// the registration assigns an address that differs from the candidate
			r := Node{Identity{candidate.Name + "-registered", "srv"}, "assigned"}
			regOf[candidate.Name] = r
			return r, nil
		},
		Established: func(id string, c *ServerChannel) {
			estIDs = append(estIDs, id)
			estChans = append(estChans, c)
		},
	}
	mux := &EnvelopeMux{}
	mux.MessageHandlerFunc(nil, func(ctx context.Context, msg *Message, s Sender) error {
		sv := vhSeen{msg: msg, sender: s}
		sv.sessionID, sv.hasID = ContextSessionID(ctx)
		sv.local, _ = ContextSessionLocalNode(ctx)
		sv.remote, _ = ContextSessionRemoteNode(ctx)
		seen = append(seen, sv)
		return s.SendNotification(ctx, msg.Notification(NotificationEventReceived))
	})
	srv := &Server{config: cfg, mux: mux, transportChan: make(chan Transport, n)}
	ts := make([]*vhCoopClient, n)
	for i := 0; i < n; i++ {
		ts[i] = &vhCoopClient{name: names[i], msgs: vParam("msgs", 1)}
		ts[i].enc, ts[i].comp = SessionEncryptionNone, SessionCompressionNone
		ts[i].supEnc = []SessionEncryption{SessionEncryptionNone}
		ts[i].supComp = []SessionCompression{SessionCompressionNone}
		// both connections are already waiting in the backlog when the server starts consuming
		srv.transportChan <- ts[i]
	}
	ctx, cancel := context.WithCancel(context.Background())
	go srv.consumeTransports(ctx)
	vQuiesce()
	vReach("c17:sessions-settled")
	vAssert(len(estIDs) == n, "c17:every-connection-gets-its-session")
	if len(estIDs) == n {
		vAssert(estIDs[0] != estIDs[1], "c17:session-ids-are-distinct")
	}
	for i := 0; i < n; i++ {
		t := ts[i]
		// the id announced to this client
		var est *Session
		for k := 0; k < len(t.sent); k++ {
			if s, ok := t.sent[k].(*Session); ok && s.State == SessionStateEstablished {
				est = s
			}
		}
		vAssert(est != nil, "c17:client-sees-established")
		if est == nil {
			continue
		}
		vAssert(est.To == regOf[t.name], "c17:client-is-told-its-registered-address")
		for k := 0; k < len(t.sentMsgs); k++ {
			m := t.sentMsgs[k]
			cnt := 0
			for j := 0; j < len(seen); j++ {
				if seen[j].msg != m {
					continue
				}
				cnt++
				sv := seen[j]
				vAssert(sv.hasID && sv.sessionID == est.ID, "c17:handler-context-has-this-sessions-id")
				vAssert(sv.local == cfg.Node, "c17:handler-context-has-the-local-node")
				vAssert(sv.remote == regOf[t.name], "c17:handler-context-has-this-sessions-remote-node")
				// the sender writes to this session's connection
				replies := 0
				for q := 0; q < len(t.sent); q++ {
					if nt, ok := t.sent[q].(*Notification); ok && nt.ID == m.ID {
						replies++
					}
				}
				vAssert(replies == 1, "c17:reply-goes-to-the-same-sessions-connection")
				other := ts[1-i]
				for q := 0; q < len(other.sent); q++ {
					if nt, ok := other.sent[q].(*Notification); ok {
						vAssert(nt.ID != m.ID, "c17:reply-never-crosses-to-another-session")
					}
				}
			}
			vAssert(cnt == 1, "c17:each-message-handled-once-by-its-session")
		}
		// no envelope of one session's script is sent on the other's connection
		for q := 0; q < len(t.sent); q++ {
			if s, ok := t.sent[q].(*Session); ok {
				vAssert(s.ID == est.ID, "c17:connection-carries-one-session-id")
			}
		}
	}
	cancel()
	vQuiesce()
	for i := 0; i < n; i++ {
		vAssert(ts[i].closed, "c17:server-stop-closes-every-session-connection")
	}
}

// vhKindsClient: a well-behaved client that sends one envelope of every kind once established.
type vhKindsClient struct {
	vhTransport
	pos int
}

func (t *vhKindsClient) Receive(ctx context.Context) (envelope, error) {
	if t.closed {
		return nil, errVhStub
	}
	p := t.pos
	t.pos++
	switch {
	case p == 0:
		return &Session{State: SessionStateNew}, nil
	case p == 1:
		s := &Session{Envelope: Envelope{ID: vhSID, From: Node{Identity{"carol", "dom"}, "dev"}}, State: SessionStateAuthenticating}
		s.SetAuthentication(&GuestAuthentication{})
		return s, nil
	case p < 6:
		return vhEnvelopeOfKind(p-2, []string{"k0", "k1", "k2", "k3"}[p-2]), nil
	}
	<-ctx.Done()
	return nil, ctx.Err()
}

type vhCtxSeen struct {
	kind      int
	sessionID string
	hasID     bool
	local     Node
	remote    Node
	hasNodes  bool
}

// HarnessC17Context: the handler of every envelope kind (message, notification, request command,
// response command) runs with its session's id, local node and registered remote node in its context.
func HarnessC17Context() {
	var seen []vhCtxSeen
	registered := Node{Identity{"carol-registered", "srv"}, "assigned"}
	cfg := &ServerConfig{Node: Node{Identity{"postmaster", "srv"}, "i1"}, CompOpts: []SessionCompression{SessionCompressionNone},
		EncryptOpts: []SessionEncryption{SessionEncryptionNone}, SchemeOpts: []AuthenticationScheme{AuthenticationSchemeGuest},
		ChannelBufferSize: vParam("buf", 1),
		Authenticate: func(ctx context.Context, id Identity, a Authentication) (*AuthenticationResult, error) {
			return MemberAuthenticationResult(), nil
		},
		Register: func(ctx context.Context, candidate Node, c *ServerChannel) (Node, error) { return registered, nil },
	}
	note := func(ctx context.Context, kind int) {
		sv := vhCtxSeen{kind: kind}
		sv.sessionID, sv.hasID = ContextSessionID(ctx)
		var ok1, ok2 bool
		sv.local, ok1 = ContextSessionLocalNode(ctx)
		sv.remote, ok2 = ContextSessionRemoteNode(ctx)
		sv.hasNodes = ok1 && ok2
		seen = append(seen, sv)
	}
	mux := &EnvelopeMux{}
	mux.MessageHandlerFunc(nil, func(ctx context.Context, m *Message, s Sender) error { note(ctx, 0); return nil })
	mux.NotificationHandlerFunc(nil, func(ctx context.Context, n *Notification) error { note(ctx, 1); return nil })
	mux.RequestCommandHandlerFunc(nil, func(ctx context.Context, c *RequestCommand, s Sender) error { note(ctx, 2); return nil })
	mux.ResponseCommandHandlerFunc(nil, func(ctx context.Context, c *ResponseCommand, s Sender) error { note(ctx, 3); return nil })
	t := &vhKindsClient{}
	t.enc, t.comp = SessionEncryptionNone, SessionCompressionNone
	t.supEnc = []SessionEncryption{SessionEncryptionNone}
	t.supComp = []SessionCompression{SessionCompressionNone}
	srv := &Server{config: cfg, mux: mux}
	sc := NewServerChannel(t, cfg.ChannelBufferSize, cfg.Node, vhSID)
	ctx, cancel := context.WithCancel(context.Background())
	go srv.handleChannel(ctx, sc)
	vQuiesce()
	vReach("c17:all-kinds-dispatched")
	for k := 0; k < 4; k++ {
		cnt := 0
		for j := 0; j < len(seen); j++ {
			if seen[j].kind != k {
				continue
			}
			cnt++
			vAssert(seen[j].hasID && seen[j].sessionID == vhSID, "c17:handler-context-of-every-kind-has-the-session-id")
			vAssert(seen[j].hasNodes && seen[j].local == cfg.Node && seen[j].remote == registered, "c17:handler-context-of-every-kind-has-the-session-nodes")
		}
		vAssert(cnt == 1, "c17:every-kind-is-handled-once")
	}
	cancel()
	vQuiesce()
	vAssert(t.closed, "c17:server-stop-closes-the-connection")
}
