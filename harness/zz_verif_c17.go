package lime

import (
	"context"
)

// ---- C17: concurrent sessions are isolated and handlers see their own session ---------------

// vhCoopClient: a scripted transport whose peer is a well-behaved client: new, authenticate as guest
// (echoing the id the server announced), then k data messages, then silence.
type vhCoopClient struct {
	vhTransport
	name     string
	msgs     int
	sentMsgs []*Message
	pos      int
}

func (t *vhCoopClient) Receive(ctx context.Context) (envelope, error) {
	if t.closed {
		return nil, errVhStub
	}
	p := t.pos
	t.pos++
	switch {
	case p == 0:
		return &Session{State: SessionStateNew}, nil
	case p == 1:
		id := ""
		if last := vhLastSent(&t.vhTransport); last != nil {
			id = last.ID
		}
		s := &Session{Envelope: Envelope{ID: id, From: Node{Identity{t.name, "dom"}, "dev"}}, State: SessionStateAuthenticating}
		s.SetAuthentication(&GuestAuthentication{})
		return s, nil
	case p < 2+t.msgs:
		m := &Message{Envelope: Envelope{ID: t.name + "-msg"}, Type: MediaTypeTextPlain(), Content: TextDocument("hi")}
		t.sentMsgs = append(t.sentMsgs, m)
		return m, nil
	}
	<-ctx.Done()
	return nil, ctx.Err()
}

type vhSeen struct {
	msg       *Message
	sessionID string
	hasID     bool
	local     Node
	remote    Node
	sender    Sender
}

func HarnessC17Sessions() {
	n := 2
	names := []string{"alice", "bob"}
	var seen []vhSeen
	var estIDs []string
	var estChans []*ServerChannel
	regOf := map[string]Node{}
	cfg := &ServerConfig{Node: Node{Identity{"postmaster", "srv"}, "i1"}, CompOpts: []SessionCompression{SessionCompressionNone},
		EncryptOpts: []SessionEncryption{SessionEncryptionNone}, SchemeOpts: []AuthenticationScheme{AuthenticationSchemeGuest},
		Backlog: n, ChannelBufferSize: vParam("buf", 1),
		Authenticate: func(ctx context.Context, id Identity, a Authentication) (*AuthenticationResult, error) {
			return MemberAuthenticationResult(), nil
		},
		Register: func(ctx context.Context, candidate Node, c *ServerChannel) (Node, error) {
			// the registration assigns an address that differs from the candidate
			r := Node{Identity{candidate.Name + "-registered", "srv"}, "assigned"}
			regOf[candidate.Name] = r
			return r, nil
		},
		Established: func(id string, c *ServerChannel) {
			estIDs = append(estIDs, id)
			estChans = append(estChans, c)
		},
	}
	mux := &EnvelopeMux{}
	mux.MessageHandlerFunc(nil, func(ctx context.Context, msg *Message, s Sender) error {
		sv := vhSeen{msg: msg, sender: s}
		sv.sessionID, sv.hasID = ContextSessionID(ctx)
		sv.local, _ = ContextSessionLocalNode(ctx)
		sv.remote, _ = ContextSessionRemoteNode(ctx)
		seen = append(seen, sv)
		return s.SendNotification(ctx, msg.Notification(NotificationEventReceived))
	})
	srv := &Server{config: cfg, mux: mux, transportChan: make(chan Transport, n)}
	ts := make([]*vhCoopClient, n)
	for i := 0; i < n; i++ {
		ts[i] = &vhCoopClient{name: names[i], msgs: vParam("msgs", 1)}
		ts[i].enc, ts[i].comp = SessionEncryptionNone, SessionCompressionNone
		ts[i].supEnc = []SessionEncryption{SessionEncryptionNone}
		ts[i].supComp = []SessionCompression{SessionCompressionNone}
		// both connections are already waiting in the backlog when the server starts consuming
		srv.transportChan <- ts[i]
	}
	ctx, cancel := context.WithCancel(context.Background())
	go srv.consumeTransports(ctx)
	vQuiesce()
	vReach("c17:sessions-settled")
	vAssert(len(estIDs) == n, "c17:every-connection-gets-its-session")
	if len(estIDs) == n {
		vAssert(estIDs[0] != estIDs[1], "c17:session-ids-are-distinct")
	}
	for i := 0; i < n; i++ {
		t := ts[i]
		// the id announced to this client
		var est *Session
		for k := 0; k < len(t.sent); k++ {
			if s, ok := t.sent[k].(*Session); ok && s.State == SessionStateEstablished {
				est = s
			}
		}
		vAssert(est != nil, "c17:client-sees-established")
		if est == nil {
			continue
		}
		vAssert(est.To == regOf[t.name], "c17:client-is-told-its-registered-address")
		for k := 0; k < len(t.sentMsgs); k++ {
			m := t.sentMsgs[k]
			cnt := 0
			for j := 0; j < len(seen); j++ {
				if seen[j].msg != m {
					continue
				}
				cnt++
				sv := seen[j]
				vAssert(sv.hasID && sv.sessionID == est.ID, "c17:handler-context-has-this-sessions-id")
				vAssert(sv.local == cfg.Node, "c17:handler-context-has-the-local-node")
				vAssert(sv.remote == regOf[t.name], "c17:handler-context-has-this-sessions-remote-node")
				// the sender writes to this session's connection
				replies := 0
				for q := 0; q < len(t.sent); q++ {
					if nt, ok := t.sent[q].(*Notification); ok && nt.ID == m.ID {
						replies++
					}
				}
				vAssert(replies == 1, "c17:reply-goes-to-the-same-sessions-connection")
				other := ts[1-i]
				for q := 0; q < len(other.sent); q++ {
					if nt, ok := other.sent[q].(*Notification); ok {
						vAssert(nt.ID != m.ID, "c17:reply-never-crosses-to-another-session")
					}
				}
			}
			vAssert(cnt == 1, "c17:each-message-handled-once-by-its-session")
		}
		// no envelope of one session's script is sent on the other's connection
		for q := 0; q < len(t.sent); q++ {
			if s, ok := t.sent[q].(*Session); ok {
				vAssert(s.ID == est.ID, "c17:connection-carries-one-session-id")
			}
		}
	}
	cancel()
	vQuiesce()
	for i := 0; i < n; i++ {
		vAssert(ts[i].closed, "c17:server-stop-closes-every-session-connection")
	}
}
