package lime

import (
	"context"
	"errors"
	"net"
	"time"
)

// ---- C15: blocking operations honour their context ------------------------------------

// vhClockCtx: a context whose deadline and cancellation instant are symbolic; it consults the clock.
type vhClockCtx struct {
	hasDeadline bool
	deadline    int64
	cancelAt    int64 // cancellation instant (symbolic); the context is cancelled from then on
	errChecks   int
	log         *[]string
}

func (c *vhClockCtx) Deadline() (time.Time, bool) {
	if c.hasDeadline {
		return vTimeOf(c.deadline), true
	}
	return time.Time{}, false
}
func (c *vhClockCtx) Done() <-chan struct{}             { return nil }
func (c *vhClockCtx) Value(key interface{}) interface{} { return nil }
func (c *vhClockCtx) Err() error {
	c.errChecks++
	*c.log = append(*c.log, "ctx-check")
	now := vNow()
	if c.hasDeadline && now >= c.deadline {
		return context.DeadlineExceeded
	}
	if now >= c.cancelAt {
		return context.Canceled
	}
	return nil
}

// vhSilentConn: the peer neither sends nor reads; every call stalls until the armed deadline.
type vhSilentConn struct {
	log       *[]string
	armedR    int64
	armedW    int64
	armed     []int64 // every deadline armed, in order
	armedAt   []int64 // the instant it was armed at
	stalls    int
	maxStalls int
	partial   bool // the first write takes a few bytes before stalling
	wrote     int
}

func (c *vhSilentConn) stall(deadline int64) (int, error) {
	c.stalls++
	*c.log = append(*c.log, "io")
	// the call returns a timeout no earlier than the armed deadline
	now := vNow()
	vAssume(now >= deadline)
	return 0, vhTimeoutErr{}
}
func (c *vhSilentConn) Read(p []byte) (int, error) {
	if c.stalls >= c.maxStalls {
		return 0, errVhStub // bound of the exploration: the connection finally breaks
	}
	return c.stall(c.armedR)
}
func (c *vhSilentConn) Write(p []byte) (int, error) {
	if c.stalls >= c.maxStalls {
		return 0, errVhStub
	}
	if c.partial && c.wrote == 0 && len(p) > 1 {
		// the peer takes the first byte, then stops reading
		c.wrote = 1
		_, err := c.stall(c.armedW)
		return 1, err
	}
	return c.stall(c.armedW)
}
func (c *vhSilentConn) Close() error         { return nil }
func (c *vhSilentConn) LocalAddr() net.Addr  { return vhAddr{} }
func (c *vhSilentConn) RemoteAddr() net.Addr { return vhAddr{} }
func (c *vhSilentConn) SetDeadline(t time.Time) error {
	return nil
}
func (c *vhSilentConn) arm(t time.Time) int64 {
	d := vInstant(t)
	c.armed = append(c.armed, d)
	c.armedAt = append(c.armedAt, vNow())
	*c.log = append(*c.log, "arm")
	return d
}
func (c *vhSilentConn) SetReadDeadline(t time.Time) error  { c.armedR = c.arm(t); return nil }
func (c *vhSilentConn) SetWriteDeadline(t time.Time) error { c.armedW = c.arm(t); return nil }

const vhPoll = int64(5 * time.Second)

// HarnessC15Poll: the poll loops of ctxConn.Read / ctxConn.Write against a silent peer.
func HarnessC15Poll() {
	var log []string
	ctx := &vhClockCtx{log: &log}
	start := vNow()
	ctx.hasDeadline = nondetBool("ctx.has-deadline")
	// (instants are taken relative to the start so that a witness replays on the real time line)
	dOff := int64(nondetInt("ctx.deadline-after"))
	cOff := int64(nondetInt("ctx.cancel-after"))
	vAssume(dOff > -vhPoll && dOff < 64*vhPoll)
	vAssume(cOff > -vhPoll && cOff < 64*vhPoll)
	ctx.deadline = start + dOff
	ctx.cancelAt = start + cOff
	// the context ends within the explored number of poll intervals
	k := int64(vParam("polls", 3))
	if ctx.hasDeadline {
		vAssume(ctx.deadline <= start+k*vhPoll)
	} else {
		vAssume(ctx.cancelAt <= start+k*vhPoll)
	}
	conn := &vhSilentConn{log: &log, maxStalls: vParam("polls", 3) + 2, partial: vParam("partial", 0) == 1}
	cc := NewCtxConn(conn, 5*time.Second, 5*time.Second)
	var err error
	buf := make([]byte, 4)
	if vhChoice("op", 2) == 0 {
		cc.SetReadContext(ctx)
		_, err = cc.Read(buf)
	} else {
		cc.SetWriteContext(ctx)
		_, err = cc.Write(buf)
	}
	end := vNow()
	vReach("c15:poll-returned")
	vAssert(err != nil, "c15:silent-peer-ends-in-an-error")
	vAssert(errors.Is(err, context.Canceled) || errors.Is(err, context.DeadlineExceeded), "c15:error-is-the-contexts")
	// every deadline armed on the socket is capped by the poll interval and by the context's deadline
	for i := 0; i < len(conn.armed); i++ {
		vAssert(conn.armed[i] <= conn.armedAt[i]+vhPoll, "c15:armed-deadline-within-poll-interval")
		if ctx.hasDeadline {
			vAssert(conn.armed[i] <= ctx.deadline, "c15:armed-deadline-not-after-context-deadline")
		}
	}
	// the context is re-examined before every (re-)armed blocking call
	for i := 0; i+2 < len(log); i++ {
		if log[i+2] == "io" {
			vAssert(log[i] == "ctx-check" && log[i+1] == "arm", "c15:context-examined-before-each-blocking-call")
		}
	}
	_ = end
}

// HarnessC15Block: context-taking operations whose peer is silent or not reading return once the
// context ends (already ended at entry, or ending while blocked) instead of blocking forever.
func HarnessC15Block() {
	var ctx context.Context
	var cancel context.CancelFunc
	if vhChoice("ctxmode", 2) == 0 {
		ctx, cancel = context.WithCancel(context.Background())
		cancel()
	} else {
		ctx, cancel = context.WithTimeout(context.Background(), 50*time.Millisecond)
		defer cancel()
	}
	var err error
	firstDone := false
	op := vhChoice("op", 12)
	switch op {
	case 0: // in-process send, peer not reading, its queue is full
		cl, _ := newInProcessTransportPair("a", 1)
		cl.remote.envChan <- vhEnvelopeOfKind(0, "fill")
		err = cl.Send(ctx, vhEnvelopeOfKind(0, "m"))
	case 1: // in-process receive, silent peer
		cl, _ := newInProcessTransportPair("a", 1)
		_, err = cl.Receive(ctx)
	case 2: // in-process accept, nobody dials
		l := &inProcessTransportListener{addr: "a", transports: make(chan *inProcessTransport, 1), done: make(chan bool, 1)}
		_, err = l.Accept(ctx)
	case 3: // channel send over a transport whose peer is not reading
		cl, _ := newInProcessTransportPair("a", 1)
		cl.remote.envChan <- vhEnvelopeOfKind(0, "fill")
		c := newChannel(cl, 1)
		c.state = SessionStateEstablished
		err = c.SendMessage(ctx, vhEnvelopeOfKind(0, "m").(*Message))
	case 4: // command processing, the response never comes
		cl, _ := newInProcessTransportPair("a", 1)
		c := newChannel(cl, 1)
		c.state = SessionStateEstablished
		_, err = c.ProcessCommand(ctx, vhEnvelopeOfKind(2, "q").(*RequestCommand))
	case 5: // waiting for a session envelope while established
		cl, _ := newInProcessTransportPair("a", 1)
		c := newChannel(cl, 1)
		c.state = SessionStateEstablished
		_, err = c.receiveSession(ctx)
	case 6: // client finishing, silent server
		cl, _ := newInProcessTransportPair("a", 1)
		c := NewClientChannel(cl, 1)
		c.state = SessionStateEstablished
		_, err = c.FinishSession(ctx)
	case 7: // establishment against a silent server
		cl, _ := newInProcessTransportPair("a", 1)
		c := NewClientChannel(cl, 1)
		_, err = c.EstablishSession(ctx, NoneCompressionSelector, NoneEncryptionSelector, Identity{"a", "b"}, GuestAuthenticator, "i")
	case 9: // channel send while another sender holds the transport (its write is stuck)
		cl, _ := newInProcessTransportPair("a", 1)
		cl.remote.envChan <- vhEnvelopeOfKind(0, "fill")
		c := newChannel(cl, 1)
		c.state = SessionStateEstablished
		go func() {
			long, stop := context.WithTimeout(context.Background(), 10*time.Second)
			defer stop()
			_ = c.SendMessage(long, vhEnvelopeOfKind(0, "first").(*Message))
			firstDone = true
		}()
		vQuiesce()
		err = c.SendMessage(ctx, vhEnvelopeOfKind(0, "m").(*Message))
	case 10: // ending the session while a sender holds the transport
		cl, _ := newInProcessTransportPair("a", 1)
		cl.remote.envChan <- vhEnvelopeOfKind(0, "fill")
		sc := NewServerChannel(cl, 1, Node{Identity{"postmaster", "srv"}, "s1"}, vhSID)
		sc.state = SessionStateEstablished
		go func() {
			long, stop := context.WithTimeout(context.Background(), 10*time.Second)
			defer stop()
			_ = sc.SendMessage(long, vhEnvelopeOfKind(0, "first").(*Message))
			firstDone = true
		}()
		vQuiesce()
		err = sc.FinishSession(ctx)
	default: // TCP listener accept, nobody connects
		l := &tcpTransportListener{}
		l.listener = vhNetListener{}
		l.done = make(chan struct{})
		l.connChan = make(chan net.Conn)
		_, err = l.Accept(ctx)
	}
	vReach("c15:operation-returned")
	if op == 9 || op == 10 {
		// ... and does so when its own context ends, not when the sender in front of it gives up (10 s)
		vAssert(!firstDone, "c15:waiting-for-the-turn-ends-with-the-callers-context")
	}
	vAssert(err != nil, "c15:operation-fails-once-the-context-ended")
	if err != nil {
		vAssert(errors.Is(err, ctx.Err()), "c15:error-wraps-the-contexts-error")
	}
}

type vhNetListener struct{}

func (vhNetListener) Accept() (net.Conn, error) { return nil, errVhStub }
func (vhNetListener) Close() error              { return nil }
func (vhNetListener) Addr() net.Addr            { return vhAddr{} }
