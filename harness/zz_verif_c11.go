package lime

import (
	"context"
	"encoding/json"
	"net/url"
)

// ---- shared generators ------------------------------------------------------

var vhMethods = []CommandMethod{CommandMethodGet, CommandMethodSet, CommandMethodDelete, CommandMethodSubscribe,
	CommandMethodUnsubscribe, CommandMethodObserve, CommandMethodMerge}
var vhEvents = []NotificationEvent{NotificationEventAccepted, NotificationEventDispatched, NotificationEventReceived,
	NotificationEventConsumed, NotificationEventFailed}

// vhNodePart: a string that is legal inside a node address component.
func vhAddrPart(tag string, cap int, noAt bool) string {
	s := nondetString(tag, cap)
	vAssume(!vStrHas(s, '/'))
	if noAt {
		vAssume(!vStrHas(s, '@'))
	}
	return s
}

func vhNode(tag string, cap int, optional bool) Node {
	if optional && !nondetBool(tag+".present") {
		return Node{}
	}
	n := Node{Identity{vhAddrPart(tag+".name", cap, true), vhAddrPart(tag+".domain", cap, true)},
		vhAddrPart(tag+".inst", cap, false)}
	if optional {
		// "present" means distinguishable from the zero node
		vAssume(n != (Node{}))
	}
	return n
}

// vhMethod: an arbitrary valid command method (one symbolic value, not seven paths).
func vhMethod(tag string) CommandMethod {
	if i := vParam("method", -1); i >= 0 {
		return vhMethods[i]
	}
	return CommandMethod(nondetOneOf(tag, "get|set|delete|subscribe|unsubscribe|observe|merge"))
}

func vhEvent(tag string) NotificationEvent {
	return NotificationEvent(nondetOneOf(tag, "accepted|dispatched|received|consumed|failed"))
}

// vhSenderOf: the node a reply must be addressed to (pp when present, else from).
func vhSenderOf(e *Envelope) Node {
	if e.PP != (Node{}) {
		return e.PP
	}
	return e.From
}

func vhChoice(tag string, n int) int {
	if i := vParam(tag, -1); i >= 0 {
		return i
	}
	return nondetChoice(tag, n)
}

// vhWireNode: what a node looks like after one wire round trip.
func vhReason(tag string, cap int) *Reason {
	if !nondetBool(tag + ".present") {
		return nil
	}
	return &Reason{Code: nondetInt(tag + ".code"), Description: nondetString(tag+".desc", cap)}
}

func vhReasonEq(a, b *Reason) bool {
	if a == nil || b == nil {
		return a == nil && b == nil
	}
	return a.Code == b.Code && a.Description == b.Description
}

// vhSimpleDoc: a leaf document of one of the registered kinds.
func vhSimpleDoc(tag string, cap int) Document {
	switch nondetChoice(tag+".kind", 3) {
	case 0:
		d := TextDocument(nondetString(tag+".text", cap))
		return &d
	case 1:
		return &Ping{}
	default:
		return &JsonDocument{"k": nondetString(tag+".jv", cap)}
	}
}

// vhWire sends an envelope through the codec the way a transport does:
// json.Marshal on the sending side, rawEnvelope + toEnvelope on the receiving side.
func vhWire(e envelope) (envelope, error, error) {
	b, err := json.Marshal(e)
	if err != nil {
		return nil, err, nil
	}
	var raw rawEnvelope
	if err := json.Unmarshal(b, &raw); err != nil {
		return nil, nil, err
	}
	env, err := raw.toEnvelope()
	return env, nil, err
}

// ---- C11: replies built from an envelope ------------------------------------

func HarnessC11Response() {
	cap := vParam("cap", 2)
	req := &RequestCommand{}
	req.ID = nondetString("id", cap)
	req.From = vhNode("from", cap, true)
	req.PP = vhNode("pp", cap, true)
	req.To = vhNode("to", cap, true)
	req.Method = vhMethod("method")

	var resp *ResponseCommand
	var reason *Reason
	var resource Document
	builder := vhChoice("builder", 3)
	switch builder {
	case 0:
		resp = req.SuccessResponse()
	case 1:
		if vParam("doc", -2) == -2 {
			resource = vhSimpleDoc("res", cap)
		} else {
			vhRegisterCustom()
			resource = vhDoc("res", vParam("doc", -1), 1, cap)
		}
		resp = req.SuccessResponseWithResource(resource)
	default:
		reason = vhReason("reason", cap)
		resp = req.FailureResponse(reason)
	}
	vReach("c11:response-built")

	vAssert(resp.ID == req.ID, "c11:response-id")
	vAssert(resp.Method == req.Method, "c11:response-method")
	vAssert(resp.To == vhSenderOf(&req.Envelope), "c11:response-addressed-to-sender")
	vAssert(resp.From == req.To, "c11:response-origin")
	if builder == 2 {
		vAssert(resp.Status == CommandStatusFailure, "c11:response-status")
		vAssert(vhReasonEq(resp.Reason, reason), "c11:response-reason")
	} else {
		vAssert(resp.Status == CommandStatusSuccess, "c11:response-status")
	}

	// the reply is a valid envelope: it survives the wire
	env, encErr, decErr := vhWire(resp)
	vAssert(encErr == nil, "c11:response-encodes")
	if encErr != nil {
		return
	}
	vAssert(decErr == nil, "c11:response-decodes")
	if decErr != nil {
		return
	}
	got, ok := env.(*ResponseCommand)
	vAssert(ok, "c11:response-kind-on-wire")
	if !ok {
		return
	}
	vReach("c11:response-on-wire")
	vAssert(got.ID == resp.ID && got.Method == resp.Method, "c11:wire-id-method")
	vAssert(got.To == resp.To && got.From == resp.From, "c11:wire-addresses")
	vAssert(got.Status == resp.Status, "c11:wire-status")
	vAssert(vhReasonEq(got.Reason, resp.Reason), "c11:wire-reason")
	if builder == 1 {
		vAssert(got.Resource != nil, "c11:wire-resource-present")
		vAssert(got.Type != nil, "c11:wire-resource-type-present")
		if got.Type != nil {
			vAssert(*got.Type == resource.MediaType(), "c11:wire-resource-type")
		}
		if got.Resource != nil {
			vAssert(vDeepEqual(got.Resource, resource), "c11:wire-resource-equal")
		}
	} else {
		vAssert(got.Resource == nil, "c11:wire-no-resource")
	}
}

func HarnessC11Notification() {
	cap := vParam("cap", 2)
	msg := &Message{}
	msg.ID = nondetString("id", cap)
	msg.From = vhNode("from", cap, true)
	msg.PP = vhNode("pp", cap, true)
	msg.To = vhNode("to", cap, true)
	var not *Notification
	var reason *Reason
	var ev NotificationEvent
	if nondetBool("failed") {
		reason = vhReason("reason", cap)
		not = msg.FailedNotification(reason)
		ev = NotificationEventFailed
	} else {
		ev = vhEvent("event")
		not = msg.Notification(ev)
	}
	vReach("c11:notification-built")
	vAssert(not.ID == msg.ID, "c11:notification-id")
	vAssert(not.Event == ev, "c11:notification-event")
	vAssert(not.To == vhSenderOf(&msg.Envelope), "c11:notification-addressed-to-sender")
	vAssert(not.From == msg.To, "c11:notification-origin")
	vAssert(vhReasonEq(not.Reason, reason), "c11:notification-reason")

	env, encErr, decErr := vhWire(not)
	vAssert(encErr == nil && decErr == nil, "c11:notification-wire")
	if encErr != nil || decErr != nil {
		return
	}
	got, ok := env.(*Notification)
	vAssert(ok, "c11:notification-kind-on-wire")
	if !ok {
		return
	}
	vReach("c11:notification-on-wire")
	vAssert(got.ID == not.ID && got.Event == not.Event, "c11:wire-notification-id-event")
	vAssert(got.To == not.To && got.From == not.From, "c11:wire-notification-addresses")
	vAssert(vhReasonEq(got.Reason, not.Reason), "c11:wire-notification-reason")
}

// vhRecSender records what a handler sends.
type vhRecSender struct {
	resp []*ResponseCommand
	n    int
}

func (s *vhRecSender) SendMessage(ctx context.Context, msg *Message) error { s.n++; return nil }
func (s *vhRecSender) SendNotification(ctx context.Context, not *Notification) error {
	s.n++
	return nil
}
func (s *vhRecSender) SendRequestCommand(ctx context.Context, cmd *RequestCommand) error {
	s.n++
	return nil
}
func (s *vhRecSender) SendResponseCommand(ctx context.Context, cmd *ResponseCommand) error {
	s.n++
	s.resp = append(s.resp, cmd)
	return nil
}

// HarnessC11Ping: the built-in ping auto-reply (server and client builder).
func HarnessC11Ping() {
	cap := vParam("cap", 2)
	mux := &EnvelopeMux{}
	if nondetBool("server-builder") {
		b := &ServerBuilder{config: &ServerConfig{}, mux: mux}
		b.AutoReplyPings()
	} else {
		b := &ClientBuilder{config: &ClientConfig{}, mux: mux}
		b.AutoReplyPings()
	}
	req := &RequestCommand{}
	req.ID = nondetString("id", cap)
	req.From = vhNode("from", cap, true)
	req.PP = vhNode("pp", cap, true)
	req.To = vhNode("to", cap, true)
	req.Method = CommandMethodGet
	req.URI = &URI{url: &url.URL{Path: "/ping"}}
	s := &vhRecSender{}
	herr := mux.handleRequestCommand(context.Background(), req, s)
	vReach("c11:ping-handled")
	vAssert(herr == nil, "c11:ping-handler-ok")
	vAssert(s.n == 1 && len(s.resp) == 1, "c11:ping-exactly-one-response")
	if len(s.resp) != 1 {
		return
	}
	resp := s.resp[0]
	vAssert(resp.ID == req.ID && resp.Method == req.Method && resp.Status == CommandStatusSuccess, "c11:ping-correlated")
	vAssert(resp.To == vhSenderOf(&req.Envelope), "c11:ping-addressed-to-sender")
	vAssert(resp.From == req.To, "c11:ping-origin")
	env, encErr, decErr := vhWire(resp)
	vAssert(encErr == nil && decErr == nil, "c11:ping-reply-valid-on-wire")
	if encErr != nil || decErr != nil {
		return
	}
	got, ok := env.(*ResponseCommand)
	vAssert(ok, "c11:ping-kind-on-wire")
	if ok {
		_, isPing := got.Resource.(*Ping)
		vAssert(isPing, "c11:ping-resource-on-wire")
	}
}
