package lime

import (
	"context"
	"errors"
	"net"
)

// ---- C18: server start/stop is orderly under any timing --------------------------------------

type vhListener struct {
	queue      chan Transport
	done       chan struct{}
	closes     int
	listens    int
	closeErr   bool
	accepting  int
	listenGate chan struct{}
}

func newVhListener() *vhListener {
	return &vhListener{queue: make(chan Transport, 2), done: make(chan struct{})}
}

func (l *vhListener) Listen(ctx context.Context, addr net.Addr) error {
	l.listens++
	if l.listenGate != nil {
		// a listener that is slow to bind
		<-l.listenGate
	}
	return nil
}
func (l *vhListener) Accept(ctx context.Context) (Transport, error) {
	l.accepting++
	select {
	case <-ctx.Done():
		return nil, ctx.Err()
	case <-l.done:
		return nil, errors.New("vh listener closed")
	case t := <-l.queue:
		return t, nil
	}
}
func (l *vhListener) Close() error {
	l.closes++
	if l.closes == 1 {
		close(l.done)
	}
	if l.closeErr {
		return errVhStub
	}
	return nil
}

func HarnessC18StartStop() {
	nl := vParam("listeners", 1)
	var estIDs, finIDs []string
	cfg := &ServerConfig{Node: Node{Identity{"postmaster", "srv"}, "i1"}, CompOpts: []SessionCompression{SessionCompressionNone},
		EncryptOpts: []SessionEncryption{SessionEncryptionNone}, SchemeOpts: []AuthenticationScheme{AuthenticationSchemeGuest},
		Backlog: vParam("backlog", 1), ChannelBufferSize: 1,
		Authenticate: func(ctx context.Context, id Identity, a Authentication) (*AuthenticationResult, error) {
			return MemberAuthenticationResult(), nil
		},
		Register:    func(ctx context.Context, candidate Node, c *ServerChannel) (Node, error) { return candidate, nil },
		Established: func(id string, c *ServerChannel) { estIDs = append(estIDs, id) },
		Finished:    func(id string) { finIDs = append(finIDs, id) },
	}
	mux := &EnvelopeMux{}
	ls := make([]*vhListener, nl)
	bound := make([]BoundListener, nl)
	for i := 0; i < nl; i++ {
		ls[i] = newVhListener()
		bound[i] = NewBoundListener(ls[i], InProcessAddr("c18"))
	}
	if vParam("closeerr", 0) == 1 {
		ls[0].closeErr = true
	}
	slow := vParam("slowlisten", 0) == 1 && nl > 1
	if slow {
		ls[nl-1].listenGate = make(chan struct{})
	}
	srv := NewServer(cfg, mux, bound...)
	// 0-1 client connecting
	var client *vhCoopClient
	if nondetBool("client.connects") {
		client = &vhCoopClient{name: "alice", msgs: 0}
		client.enc, client.comp = SessionEncryptionNone, SessionCompressionNone
		client.supEnc = []SessionEncryption{SessionEncryptionNone}
		client.supComp = []SessionCompression{SessionCompressionNone}
		ls[0].queue <- client
	}
	var serveErr error
	served := false
	go func() {
		serveErr = srv.ListenAndServe()
		served = true
	}()
	// Close arrives at an arbitrary moment: before the server goroutines ran, or after everything settled
	settled := false
	switch vhChoice("when", 2) {
	case 0:
	default:
		vQuiesce()
		settled = !slow
	}
	if settled {
		// the server had time to start: every listener is being accepted from, the waiting connection is served
		for i := 0; i < nl; i++ {
			vAssert(ls[i].accepting >= 1, "c18:every-listener-is-accepted-from")
		}
		if client != nil {
			vAssert(len(client.sent) > 0, "c18:waiting-connection-is-served")
		}
	}
	if slow {
		// Close lands while the serve call is still starting its listeners (the last one is slow to bind)
		vQuiesce()
	} else if srv.shutdown == nil {
		// the serve call has not started yet: Close has nothing to stop (documented error); let it start first
		vQuiesce()
	}
	closeErr := srv.Close()
	if slow {
		close(ls[nl-1].listenGate)
	}
	vQuiesce()
	vReach("c18:closed")
	vAssert(served, "c18:serve-call-returns-after-close")
	if served {
		vAssert(serveErr == ErrServerClosed, "c18:serve-call-returns-server-closed")
	}
	for i := 0; i < nl; i++ {
		vAssert(ls[i].closes >= 1, "c18:every-listener-is-stopped")
	}
	if vParam("closeerr", 0) == 0 {
		vAssert(closeErr == nil, "c18:close-succeeds")
	}
	vAssert(len(estIDs) == len(finIDs), "c18:finished-callback-for-exactly-the-established-sessions")
	vAssert(len(estIDs) <= 1, "c18:established-callback-at-most-once-per-session")
	if len(estIDs) == 1 && len(finIDs) == 1 {
		vAssert(estIDs[0] == finIDs[0], "c18:callbacks-name-the-same-session")
		// the established session was finished: its client observes a finished session
		sawFinished := false
		for k := 0; k < len(client.sent); k++ {
			if s, ok := client.sent[k].(*Session); ok && s.State == SessionStateFinished {
				sawFinished = true
			}
		}
		vAssert(sawFinished, "c18:client-of-established-session-observes-finished")
	}
	if client != nil && len(client.sent) > 0 {
		vAssert(client.closed, "c18:accepted-connection-is-released")
	}
	vAssert(vThreadsLive() <= 0, "c18:no-serving-goroutine-left-behind")
}
