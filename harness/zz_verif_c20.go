package lime

import (
	"context"
	"time"
)

// ---- C20: dispatch to exactly the first matching handler ---------------------------

type vhDispatchLog struct {
	handler []int      // index of the handler invoked
	env     []envelope // envelope it was given
	sender  []Sender
	preds   int // predicate evaluations
}

type vhHandlerSpec struct {
	nilPred []bool
	accept  []bool
	fail    []bool
}

func vhHandlerTable(n int) *vhHandlerSpec {
	sp := &vhHandlerSpec{nilPred: make([]bool, n), accept: make([]bool, n), fail: make([]bool, n)}
	for i := 0; i < n; i++ {
		sp.nilPred[i] = nondetChoice("pred.nil", 2) == 1
		sp.accept[i] = nondetBool("pred.accept")
		sp.fail[i] = nondetBool("handler.fails")
	}
	return sp
}

// expected: index of the earliest handler whose predicate is missing or accepts (-1: none)
func (sp *vhHandlerSpec) expected() int {
	for i := 0; i < len(sp.accept); i++ {
		if sp.nilPred[i] || sp.accept[i] {
			return i
		}
	}
	return -1
}

func vhBuildMux(sp *vhHandlerSpec, log *vhDispatchLog) *EnvelopeMux {
	mux := &EnvelopeMux{}
	for i := 0; i < len(sp.accept); i++ {
		i := i
		var mp MessagePredicate
		var np NotificationPredicate
		var qp RequestCommandPredicate
		var rp ResponseCommandPredicate
		if !sp.nilPred[i] {
			mp = func(*Message) bool { log.preds++; return sp.accept[i] }
			np = func(*Notification) bool { log.preds++; return sp.accept[i] }
			qp = func(*RequestCommand) bool { log.preds++; return sp.accept[i] }
			rp = func(*ResponseCommand) bool { log.preds++; return sp.accept[i] }
		}
		rec := func(e envelope, s Sender) error {
			log.handler = append(log.handler, i)
			log.env = append(log.env, e)
			log.sender = append(log.sender, s)
			if sp.fail[i] {
				return errVhStub
			}
			return nil
		}
		mux.MessageHandlerFunc(mp, func(ctx context.Context, m *Message, s Sender) error { return rec(m, s) })
		mux.NotificationHandlerFunc(np, func(ctx context.Context, n *Notification) error { return rec(n, nil) })
		mux.RequestCommandHandlerFunc(qp, func(ctx context.Context, c *RequestCommand, s Sender) error { return rec(c, s) })
		mux.ResponseCommandHandlerFunc(rp, func(ctx context.Context, c *ResponseCommand, s Sender) error { return rec(c, s) })
	}
	return mux
}

func vhEnvelopeOfKind(k int, id string) envelope {
	switch k {
	case 0:
		return &Message{Envelope: Envelope{ID: id}, Type: MediaTypeTextPlain(), Content: TextDocument("x")}
	case 1:
		return &Notification{Envelope: Envelope{ID: id}, Event: NotificationEventReceived}
	case 2:
		return &RequestCommand{Command: Command{Envelope: Envelope{ID: id}, Method: CommandMethodGet}}
	default:
		return &ResponseCommand{Command: Command{Envelope: Envelope{ID: id}, Method: CommandMethodGet}, Status: CommandStatusSuccess}
	}
}

// HarnessC20Handle: one envelope through the per-kind dispatch function.
func HarnessC20Handle() {
	n := vParam("handlers", 3)
	sp := vhHandlerTable(n)
	log := &vhDispatchLog{}
	mux := vhBuildMux(sp, log)
	kind := vhChoice("kind", 4)
	e := vhEnvelopeOfKind(kind, "e1")
	snd := &vhRecSender{}
	var err error
	switch kind {
	case 0:
		err = mux.handleMessage(context.Background(), e.(*Message), snd)
	case 1:
		err = mux.handleNotification(context.Background(), e.(*Notification))
	case 2:
		err = mux.handleRequestCommand(context.Background(), e.(*RequestCommand), snd)
	default:
		err = mux.handleResponseCommand(context.Background(), e.(*ResponseCommand), snd)
	}
	vReach("c20:handled")
	want := sp.expected()
	if want < 0 {
		vAssert(len(log.handler) == 0, "c20:no-match-invokes-nothing")
		vAssert(err == nil, "c20:no-match-is-not-an-error")
		return
	}
	vAssert(len(log.handler) == 1, "c20:exactly-one-handler-invoked")
	if len(log.handler) >= 1 {
		vAssert(log.handler[0] == want, "c20:first-matching-handler-invoked")
		vAssert(log.env[0] == e, "c20:handler-gets-the-envelope-as-received")
		if kind != 1 {
			vAssert(log.sender[0] == Sender(snd), "c20:handler-gets-the-sender")
		}
	}
	vAssert((err != nil) == sp.fail[want], "c20:handler-error-is-propagated")
}

// HarnessC20Listen: the dispatch loop over pre-loaded inbound streams.
func HarnessC20Listen() {
	n := vParam("handlers", 2)
	k := vParam("envelopes", 2)
	sp := vhHandlerTable(n)
	log := &vhDispatchLog{}
	mux := vhBuildMux(sp, log)
	t := &vhTransport{depth: 0, enc: SessionEncryptionNone, comp: SessionCompressionNone}
	c := newChannel(t, k)
	c.state = SessionStateEstablished
	c.sessionID = vhSID
	var sentIn []envelope
	for i := 0; i < k; i++ {
		kind := nondetChoice("env.kind", 4)
		e := vhEnvelopeOfKind(kind, "e")
		sentIn = append(sentIn, e)
		switch kind {
		case 0:
			c.inMsgChan <- e.(*Message)
		case 1:
			c.inNotChan <- e.(*Notification)
		case 2:
			c.inReqCmdChan <- e.(*RequestCommand)
		default:
			c.inRespCmdChan <- e.(*ResponseCommand)
		}
	}
	ctx, cancel := context.WithTimeout(context.Background(), 200*time.Millisecond)
	defer cancel()
	err := mux.listen(ctx, c)
	vReach("c20:listen-returned")
	want := sp.expected()
	if want < 0 {
		vAssert(len(log.handler) == 0, "c20:loop-no-match-invokes-nothing")
		vAssert(err != nil && ctx.Err() != nil, "c20:loop-continues-when-nothing-matches")
		return
	}
	// every invocation goes to the first matching handler, with an envelope that was inbound, at most once each
	for i := 0; i < len(log.handler); i++ {
		vAssert(log.handler[i] == want, "c20:loop-first-matching-handler")
		found := 0
		for j := 0; j < len(sentIn); j++ {
			if sentIn[j] == log.env[i] {
				found++
			}
		}
		vAssert(found == 1, "c20:loop-envelope-as-received")
		for j := 0; j < i; j++ {
			vAssert(log.env[j] != log.env[i], "c20:loop-dispatches-each-envelope-once")
		}
		if _, isNot := log.env[i].(*Notification); !isNot {
			vAssert(log.sender[i] == Sender(c), "c20:loop-sender-is-the-session")
		}
	}
	if sp.fail[want] {
		vAssert(len(log.handler) == 1, "c20:handler-error-stops-the-loop")
		vAssert(err != nil, "c20:handler-error-returned-by-the-loop")
	} else {
		vAssert(len(log.handler) == k, "c20:loop-dispatches-every-envelope")
	}
}
