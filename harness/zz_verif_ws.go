package lime

import (
	"context"
	"encoding/json"
	"errors"
	"io"
	"net"
	"sync"
	"time"
)

// ---- the WebSocket transport over a harness connection ------------------------------------------
// websocket_transport.go runs from its SSA; gorilla's Conn is the engine's model (natively: the real
// gorilla code over an adapter, see vWSConn).

func vhNewWS(conn net.Conn) *websocketTransport {
	return &websocketTransport{conn: vWSConn(conn), c: SessionCompressionNone, e: SessionEncryptionNone}
}

// vhBlockConn: the peer neither sends nor reads. Read and Write block until the deadline of their
// direction has expired (a token sits in rexp / wexp for as long as it has) or the connection is closed.
type vhBlockConn struct {
	rexp, wexp chan struct{}
	closeCh    chan struct{}
	once       sync.Once
}

func newVhBlockConn() *vhBlockConn {
	return &vhBlockConn{rexp: make(chan struct{}, 1), wexp: make(chan struct{}, 1), closeCh: make(chan struct{})}
}

func (c *vhBlockConn) wait(tok chan struct{}) (int, error) {
	select {
	case <-tok:
		select {
		case tok <- struct{}{}:
		default:
		}
		return 0, vhTimeoutErr{}
	case <-c.closeCh:
		return 0, errVhStub
	}
}

func (c *vhBlockConn) arm(tok chan struct{}, t time.Time) {
	if !t.IsZero() && !t.After(time.Now()) {
		select {
		case tok <- struct{}{}:
		default:
		}
	} else {
		select {
		case <-tok:
		default:
		}
	}
}
func (c *vhBlockConn) Read(p []byte) (int, error)  { return c.wait(c.rexp) }
func (c *vhBlockConn) Write(p []byte) (int, error) { return c.wait(c.wexp) }
func (c *vhBlockConn) Close() error {
	c.once.Do(func() { close(c.closeCh) })
	return nil
}
func (c *vhBlockConn) LocalAddr() net.Addr                { return vhAddr{} }
func (c *vhBlockConn) RemoteAddr() net.Addr               { return vhAddr{} }
func (c *vhBlockConn) SetDeadline(t time.Time) error      { c.arm(c.rexp, t); c.arm(c.wexp, t); return nil }
func (c *vhBlockConn) SetReadDeadline(t time.Time) error  { c.arm(c.rexp, t); return nil }
func (c *vhBlockConn) SetWriteDeadline(t time.Time) error { c.arm(c.wexp, t); return nil }

// HarnessC15WS: Send to a peer that does not read (the write is blocked on the socket) and Receive from
// a silent peer return with the context's error once the context ends, and leave no goroutine behind.
func HarnessC15WS() {
	conn := newVhBlockConn()
	t := vhNewWS(conn)
	var ctx context.Context
	var cancel context.CancelFunc
	if vhChoice("ctxmode", 2) == 0 {
		ctx, cancel = context.WithCancel(context.Background())
		cancel()
	} else {
		ctx, cancel = context.WithTimeout(context.Background(), 50*time.Millisecond)
		defer cancel()
	}
	var err error
	switch vhChoice("op", 3) {
	case 0:
		_, err = t.Receive(ctx)
	case 1:
		err = t.Send(ctx, vhWireEnvelope(0, "m"))
	default:
		// Receive with an ended context while a message is already there: the call returns (with the
		// message or with the context's error) and its reader goroutine ends either way
		in := vStreamNew("in")
		b, _ := json.Marshal(vhWireEnvelope(0, "m"))
		vStreamPut(in, b, 128)
		fc := &vhFrameConn{in: in}
		t2 := vhNewWS(fc)
		env, rerr := t2.Receive(ctx)
		vReach("c15:ws-operation-returned")
		vAssert(rerr != nil || env != nil, "c15:ws-receive-returns-something")
		if rerr != nil && !fc.cut {
			vAssert(errors.Is(rerr, ctx.Err()), "c15:ws-error-wraps-the-contexts-error")
		}
		vQuiesce()
		vAssert(vThreadsLive() <= 0, "c15:ws-no-goroutine-left-behind")
		return
	}
	vReach("c15:ws-operation-returned")
	vAssert(err != nil, "c15:ws-operation-fails-once-the-context-ended")
	if err != nil {
		vAssert(errors.Is(err, ctx.Err()), "c15:ws-error-wraps-the-contexts-error")
	}
	vQuiesce()
	vAssert(vThreadsLive() <= 0, "c15:ws-no-goroutine-left-behind")
}

// HarnessWSReceive: the receiving end yields exactly the messages sent, in order, or an error; an
// undecodable message fails one receive, the connection goes on (C04 / C12-style, WebSocket framing).
func HarnessWSReceive() {
	in := vStreamNew("in")
	conn := &vhFrameConn{in: in, maxTimeouts: vParam("timeouts", 1), maxFrag: vParam("frag", 2)}
	t := vhNewWS(conn)
	k := nondetRange("frames", 0, vParam("frames", 2))
	var sent []envelope
	bad := make([]bool, 0, k)
	for i := 0; i < k; i++ {
		if vParam("garbage", 0) == 1 && nondetBool("garbage") {
			vStreamPutBadMsg(in, 5)
			sent = append(sent, nil)
			bad = append(bad, true)
			continue
		}
		e := vhWireEnvelope(vhChoice([]string{"kind0", "kind1", "kind2"}[i], 5), vhIDs[i])
		b, err := json.Marshal(e)
		vAssume(err == nil)
		size := nondetInt("size")
		vAssume(size >= 128)
		vAssume(size <= 4096)
		vStreamPut(in, b, size)
		sent = append(sent, e)
		bad = append(bad, false)
	}
	if nondetBool("peer.closes") {
		vStreamClose(in)
	}
	vReach("c04:ws-stream-prepared")
	got := 0
	faulted := false
	for j := 0; j < k+1; j++ {
		env, err := t.Receive(context.Background())
		if err != nil {
			vReach("c04:ws-receive-error")
			if got < k && bad[got] && !faulted && !conn.cut && conn.timeouts == 0 {
				// the undecodable message: this receive fails, the next one continues with what follows
				got++
				continue
			}
			faulted = true
			continue
		}
		vReach("c04:ws-received-one")
		vAssert(!faulted, "c04:ws-nothing-is-received-after-a-failed-read")
		vAssert(got < k, "c04:ws-no-fabricated-envelope")
		if got >= k {
			break
		}
		vAssert(!bad[got] && vhSameEnvelope(env, sent[got]), "c04:ws-envelopes-arrive-intact-and-in-order")
		got++
	}
	if !conn.cut && conn.timeouts == 0 {
		vAssert(got == k, "c04:ws-everything-sent-is-received")
	}
	_ = io.EOF
}

// HarnessWSSend: Send reports success exactly when one whole message went out, and what went out is
// the envelope's JSON.
func HarnessWSSend() {
	in := vStreamNew("in")
	conn := &vhFrameConn{in: in, maxTimeouts: vParam("timeouts", 1)}
	t := vhNewWS(conn)
	n := vParam("sends", 2)
	ok := 0
	failed := false
	for i := 0; i < n; i++ {
		e := vhWireEnvelope(nondetChoice("kind", 5), vhIDs[i])
		before := len(conn.frames)
		err := t.Send(context.Background(), e)
		vQuiesce()
		vReach("c04:ws-send-returned")
		if err == nil {
			ok++
			vAssert(!failed, "c04:ws-no-send-succeeds-after-a-failed-write")
			vAssert(len(conn.frames) == before+1, "c04:ws-successful-send-writes-exactly-one-message")
			if len(conn.frames) == before+1 {
				want, _ := json.Marshal(e)
				vAssert(vJSONCanon(conn.frames[before]) == vJSONCanon(want), "c04:ws-message-on-the-wire-is-the-envelope")
			}
		} else {
			failed = true
			vAssert(len(conn.frames) == before, "c04:ws-failed-send-writes-no-message")
		}
	}
	vAssert(len(conn.frames) == ok, "c04:ws-messages-on-the-wire-equal-successful-sends")
	vAssert(vThreadsLive() <= 0, "c04:ws-no-goroutine-left-behind")
}

// HarnessC14WS: a handshake that fails on a WebSocket transport (undecodable message, a peer that
// vanishes, a non-session envelope) leaves the connection closed, fires no callback, leaves no goroutine.
func HarnessC14WS() {
	in := vStreamNew("in")
	conn := &vhFrameConn{in: in, maxTimeouts: 1, maxFrag: 1}
	t := vhNewWS(conn)
	switch vhChoice("fault", 3) {
	case 0: // an undecodable message
		vStreamPutBadMsg(in, 16)
	case 1: // the peer connects and goes away at once
		vStreamClose(in)
	default: // a valid envelope that is not a session, then silence until the peer leaves
		b, _ := json.Marshal(vhWireEnvelope(0, "m"))
		vStreamPut(in, b, 256)
		vStreamClose(in)
	}
	established, finished := 0, 0
	cfg := &ServerConfig{Node: Node{Identity{"postmaster", "srv"}, "s1"}, CompOpts: []SessionCompression{SessionCompressionNone},
		EncryptOpts: []SessionEncryption{SessionEncryptionNone}, SchemeOpts: []AuthenticationScheme{AuthenticationSchemeGuest}, ChannelBufferSize: 1,
		Authenticate: func(ctx context.Context, id Identity, a Authentication) (*AuthenticationResult, error) {
			return MemberAuthenticationResult(), nil
		},
		Register:    func(ctx context.Context, n Node, c *ServerChannel) (Node, error) { return n, nil },
		Established: func(id string, c *ServerChannel) { established++ },
		Finished:    func(id string) { finished++ },
	}
	srv := &Server{config: cfg, mux: &EnvelopeMux{}}
	sc := NewServerChannel(t, 1, cfg.Node, vhSID)
	ctx, cancel := context.WithTimeout(context.Background(), 300*time.Millisecond)
	defer cancel()
	srv.handleChannel(ctx, sc)
	vQuiesce()
	vReach("c14:ws-serve-returned")
	vAssert(conn.closed, "c14:ws-connection-closed-after-failed-handshake")
	vAssert(established == 0 && finished == 0, "c14:ws-no-callbacks-for-failed-handshake")
	vAssert(vThreadsLive() <= 0, "c14:ws-no-goroutine-left")
}

// HarnessC13WSFinishWhileSending: the server ends a session (FinishSession, the way Server.Close does
// for every session) while an application goroutine's send on that session is stuck in the socket (the
// client is not reading). Both calls return, nothing panics, the connection is released.
func HarnessC13WSFinishWhileSending() {
	conn := newVhBlockConn()
	t := vhNewWS(conn)
	sc := NewServerChannel(t, 1, Node{Identity{"postmaster", "srv"}, "s1"}, vhSID)
	sc.setState(SessionStateEstablished)
	sendDone := false
	var sendErr error
	go func() {
		ctx, cancel := context.WithTimeout(context.Background(), 200*time.Millisecond)
		defer cancel()
		sendErr = sc.SendMessage(ctx, vhEnvelopeOfKind(0, "m").(*Message))
		sendDone = true
	}()
	vQuiesce() // the sender is inside its blocked write
	ctx, cancel := context.WithTimeout(context.Background(), 100*time.Millisecond)
	defer cancel()
	ferr := sc.FinishSession(ctx)
	if ferr != nil {
		_ = sc.Close() // what Server.handleChannel does
	}
	vSettle()
	vReach("c13:ws-finish-while-sending-returned")
	vAssert(sendDone, "c13:ws-blocked-send-returns")
	vAssert(sendErr != nil, "c13:ws-blocked-send-fails")
	vAssert(!t.Connected(), "c13:ws-connection-released")
	vAssert(vThreadsLive() <= 0, "c13:ws-no-goroutine-left-behind")
}

// vhWSCoopConn: the byte-level peer of a server-side WebSocket connection - a well-behaved client that
// says `new`, authenticates as guest echoing the session id the server announced, sends its messages once
// the session is established, then stays silent. Reads block (until the read deadline is moved into the
// past, the connection is closed, or the server writes something the script was waiting for).
type vhWSCoopConn struct {
	in       int
	name     string
	msgs     int
	step     int
	frames   [][]byte
	rexp     chan struct{}
	wrote    chan struct{}
	closeCh  chan struct{}
	once     sync.Once
	closed   bool
	sentMsgs []string
	timed    bool      // read deadlines expire by themselves (a timer), as on a real socket: needed by the TCP poll loop
	rdl      time.Time // the armed read deadline
}

func newVhWSCoopConn(in int, name string, msgs int) *vhWSCoopConn {
	return &vhWSCoopConn{in: in, name: name, msgs: msgs, rexp: make(chan struct{}, 1), wrote: make(chan struct{}, 1), closeCh: make(chan struct{})}
}

// lastSession: the last session envelope the server wrote.
func (c *vhWSCoopConn) lastSession() *Session {
	for i := len(c.frames) - 1; i >= 0; i-- {
		var raw rawEnvelope
		if json.Unmarshal(c.frames[i], &raw) != nil {
			continue
		}
		if e, err := raw.toEnvelope(); err == nil {
			if s, ok := e.(*Session); ok {
				return s
			}
		}
	}
	return nil
}

func (c *vhWSCoopConn) next() bool {
	var e envelope
	last := c.lastSession()
	switch {
	case c.step == 0:
		e = &Session{State: SessionStateNew}
	case c.step == 1:
		if last == nil {
			return false
		}
		s := &Session{Envelope: Envelope{ID: last.ID, From: Node{Identity{c.name, "dom"}, "dev"}}, State: SessionStateAuthenticating}
		s.SetAuthentication(&GuestAuthentication{})
		e = s
	case c.step < 2+c.msgs:
		if last == nil || last.State != SessionStateEstablished {
			return false
		}
		id := vConcat(c.name, []string{"-msg0", "-msg1", "-msg2"}[c.step-2])
		c.sentMsgs = append(c.sentMsgs, id)
		e = &Message{Envelope: Envelope{ID: id}, Type: MediaTypeTextPlain(), Content: TextDocument("hi")}
	default:
		return false
	}
	c.step++
	b, err := json.Marshal(e)
	vAssume(err == nil)
	vStreamPut(c.in, b, 512) // (a fixed frame size keeps the stream arithmetic concrete)
	return true
}

func (c *vhWSCoopConn) Read(p []byte) (int, error) {
	for {
		if n := vStreamReadAll(c.in, p); n > 0 {
			return n, nil
		}
		if c.next() {
			continue
		}
		var expiry <-chan time.Time
		var tm *time.Timer
		if c.timed && !c.rdl.IsZero() {
			tm = time.NewTimer(time.Until(c.rdl))
			expiry = tm.C
		}
		stop := func() {
			if tm != nil {
				tm.Stop()
			}
		}
		select {
		case <-c.rexp:
			select {
			case c.rexp <- struct{}{}:
			default:
			}
			stop()
			return 0, vhTimeoutErr{}
		case <-expiry:
			return 0, vhTimeoutErr{}
		case <-c.closeCh:
			stop()
			return 0, errVhStub
		case <-c.wrote:
			stop()
		}
	}
}

func (c *vhWSCoopConn) Write(p []byte) (int, error) {
	if c.closed {
		return 0, errVhStub
	}
	c.frames = append(c.frames, p)
	select {
	case c.wrote <- struct{}{}:
	default:
	}
	return len(p), nil
}

func (c *vhWSCoopConn) Close() error {
	c.once.Do(func() { c.closed = true; close(c.closeCh) })
	return nil
}
func (c *vhWSCoopConn) LocalAddr() net.Addr           { return vhAddr{} }
func (c *vhWSCoopConn) RemoteAddr() net.Addr          { return vhAddr{} }
func (c *vhWSCoopConn) SetDeadline(t time.Time) error { return c.SetReadDeadline(t) }
func (c *vhWSCoopConn) SetReadDeadline(t time.Time) error {
	c.rdl = t
	if !t.IsZero() && !t.After(time.Now()) {
		select {
		case c.rexp <- struct{}{}:
		default:
		}
	} else {
		select {
		case <-c.rexp:
		default:
		}
	}
	return nil
}
func (c *vhWSCoopConn) SetWriteDeadline(t time.Time) error { return nil }

// HarnessC18WS: the real Server serves one connection that arrives through the WebSocket transport
// (gorilla model / real gorilla natively): handshake, messages handled with replies on the same
// connection, then the server stops: the client is sent a finished session, the connection is closed,
// the callbacks fired once each, nothing is left running.
func HarnessC18WS() {
	in := vStreamNew("in")
	conn := newVhWSCoopConn(in, "alice", vParam("msgs", 1))
	var t Transport
	if vParam("tcp", 0) == 1 {
		// the real TCP transport instead (its receiver polls the socket: read deadlines are timers)
		conn.timed = true
		tt := vhNewTCP(conn, 4096)
		tt.server = true
		t = tt
	} else {
		t = vhNewWS(conn)
	}
	var handled []string
	established, finished := 0, 0
	estID := ""
	cfg := &ServerConfig{Node: Node{Identity{"postmaster", "srv"}, "i1"}, CompOpts: []SessionCompression{SessionCompressionNone},
		EncryptOpts: []SessionEncryption{SessionEncryptionNone}, SchemeOpts: []AuthenticationScheme{AuthenticationSchemeGuest},
		Backlog: 1, ChannelBufferSize: vParam("buf", 1),
		Authenticate: func(ctx context.Context, id Identity, a Authentication) (*AuthenticationResult, error) {
			return MemberAuthenticationResult(), nil
		},
		Register:    func(ctx context.Context, candidate Node, c *ServerChannel) (Node, error) { return candidate, nil },
		Established: func(id string, c *ServerChannel) { established++; estID = id },
		Finished:    func(id string) { finished++ },
	}
	mux := &EnvelopeMux{}
	mux.MessageHandlerFunc(nil, func(ctx context.Context, msg *Message, s Sender) error {
		handled = append(handled, msg.ID)
		return s.SendNotification(ctx, msg.Notification(NotificationEventReceived))
	})
	srv := &Server{config: cfg, mux: mux, transportChan: make(chan Transport, 1)}
	srv.transportChan <- t
	ctx, cancel := context.WithCancel(context.Background())
	go srv.consumeTransports(ctx)
	vQuiesce()
	vReach("c18:wire-session-settled")
	vAssert(established == 1, "c18:wire-established-callback-once")
	vAssert(len(handled) == len(conn.sentMsgs) && len(conn.sentMsgs) == conn.msgs, "c18:wire-every-message-handled-once")
	for i := 0; i < len(conn.sentMsgs); i++ {
		replies := 0
		for q := 0; q < len(conn.frames); q++ {
			var raw rawEnvelope
			if json.Unmarshal(conn.frames[q], &raw) != nil {
				continue
			}
			if e, err := raw.toEnvelope(); err == nil {
				if nt, ok := e.(*Notification); ok && nt.ID == conn.sentMsgs[i] {
					replies++
				}
			}
		}
		vAssert(replies == 1, "c18:wire-reply-on-the-same-connection")
	}
	cancel()
	vSettle()
	last := conn.lastSession()
	vAssert(last != nil && last.State == SessionStateFinished && last.ID == estID, "c18:wire-client-observes-finished-session")
	vAssert(conn.closed, "c18:wire-connection-closed-after-stop")
	vAssert(finished == 1, "c18:wire-finished-callback-once")
	vAssert(vThreadsLive() <= 0, "c18:wire-no-goroutine-left")
}
