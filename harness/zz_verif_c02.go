package lime

import (
	"encoding/json"
)

// ---- C02: decoding untrusted input never panics and is stable under re-encoding ----

// Valid base encodings; leaves starting with '?' are symbolic strings, -1 is a
// symbolic number. nondetJSONMut applies up to k structural mutations
// (delete, null, wrong JSON type, empty object/array, array wrap, alien key)
// at arbitrary positions of the tree.
var vhC02Bases = []string{
	// 0: message, text content
	`{"id":"?","from":"?","pp":"?","to":"?","metadata":{"?":"?"},"type":"text/plain","content":"?"}`,
	// 1: message, generic JSON content
	`{"id":"?","to":"?","type":"application/json","content":{"a":"?","b":-1}}`,
	// 2: message, container of text
	`{"id":"?","to":"?","type":"application/vnd.lime.container+json","content":{"type":"text/plain","value":"?"}}`,
	// 3: message, collection of text
	`{"id":"?","type":"application/vnd.lime.collection+json","content":{"total":-1,"itemType":"text/plain","items":["?","?"]}}`,
	// 4: message, collection of containers
	`{"id":"?","type":"application/vnd.lime.collection+json","content":{"itemType":"application/vnd.lime.container+json","items":[{"type":"text/plain","value":"?"}]}}`,
	// 5: notification
	`{"id":"?","from":"?","to":"?","event":"failed","reason":{"code":-1,"description":"?"}}`,
	// 6: request command with container resource
	`{"id":"?","from":"?","method":"set","uri":"/x","type":"application/vnd.lime.container+json","resource":{"type":"application/json","value":{"k":"?"}}}`,
	// 7: request command without resource
	`{"id":"?","to":"?","method":"get","uri":"/ping"}`,
	// 8: response command, failure
	`{"id":"?","from":"?","method":"get","status":"failure","reason":{"code":-1,"description":"?"}}`,
	// 9: response command, success with ping resource
	`{"id":"?","method":"get","status":"success","type":"application/vnd.lime.ping+json","resource":{}}`,
	// 10: session with plain authentication
	`{"id":"?","from":"?","state":"authenticating","scheme":"plain","authentication":{"password":"?"}}`,
	// 11: session negotiating with options
	`{"id":"?","from":"?","state":"negotiating","encryptionOptions":["none","tls"],"compressionOptions":["none"],"encryption":"tls","compression":"none"}`,
	// 12: session failed with reason, scheme options
	`{"id":"?","state":"failed","schemeOptions":["guest","?"],"reason":{"code":-1,"description":"?"}}`,
	// 13: session with external authentication
	`{"state":"authenticating","scheme":"external","authentication":{"token":"?","issuer":"?"}}`,
}

func vhNormEnvelope(e *Envelope) {
	if len(e.Metadata) == 0 {
		e.Metadata = nil
	}
}

// vhNorm identifies representations the statement does not distinguish:
// nil and empty metadata / option lists.
func vhNorm(e envelope) {
	switch x := e.(type) {
	case *Message:
		vhNormEnvelope(&x.Envelope)
	case *Notification:
		vhNormEnvelope(&x.Envelope)
	case *RequestCommand:
		vhNormEnvelope(&x.Envelope)
	case *ResponseCommand:
		vhNormEnvelope(&x.Envelope)
	case *Session:
		vhNormEnvelope(&x.Envelope)
		if len(x.EncryptionOptions) == 0 {
			x.EncryptionOptions = nil
		}
		if len(x.CompressionOptions) == 0 {
			x.CompressionOptions = nil
		}
		if len(x.SchemeOptions) == 0 {
			x.SchemeOptions = nil
		}
	}
}

func vhNewOfKind(e envelope) envelope {
	switch e.(type) {
	case *Message:
		return &Message{}
	case *Notification:
		return &Notification{}
	case *RequestCommand:
		return &RequestCommand{}
	case *ResponseCommand:
		return &ResponseCommand{}
	default:
		return &Session{}
	}
}

// vhStable: whatever was accepted can be encoded again, and decoding that
// encoding (typed and transport path) yields an equal envelope.
func vhStable(e envelope) {
	b2, err := json.Marshal(e)
	vAssert(err == nil, "c02:accepted-envelope-reencodes")
	if err != nil {
		return
	}
	vhNorm(e)
	e2 := vhNewOfKind(e)
	err = json.Unmarshal(b2, e2)
	vAssert(err == nil, "c02:reencoding-decodes-typed")
	if err == nil {
		vhNorm(e2)
		vAssert(vDeepEqual(e2, e), "c02:reencoding-equal-typed")
	}
	var raw rawEnvelope
	err = json.Unmarshal(b2, &raw)
	vAssert(err == nil, "c02:reencoding-decodes-raw")
	if err != nil {
		return
	}
	e3, err := raw.toEnvelope()
	vAssert(err == nil, "c02:reencoding-decodes-transport")
	if err != nil {
		return
	}
	vhNorm(e3)
	vAssert(vDeepEqual(e3, e), "c02:reencoding-equal-transport")
}

func HarnessC02Decode() {
	base := vhC02Bases[vParam("base", 0)]
	b := nondetJSONMut("in", base, vParam("k", 1), vParam("cap", 2))
	vReach("c02:input-built")
	var env envelope
	var err error
	switch vhChoice("target", 6) {
	case 0:
		m := &Message{}
		err = json.Unmarshal(b, m)
		env = m
	case 1:
		n := &Notification{}
		err = json.Unmarshal(b, n)
		env = n
	case 2:
		c := &RequestCommand{}
		err = json.Unmarshal(b, c)
		env = c
	case 3:
		c := &ResponseCommand{}
		err = json.Unmarshal(b, c)
		env = c
	case 4:
		s := &Session{}
		err = json.Unmarshal(b, s)
		env = s
	default:
		// the transport receive path
		var raw rawEnvelope
		err = json.Unmarshal(b, &raw)
		if err == nil {
			env, err = raw.toEnvelope()
		}
	}
	if err != nil {
		vReach("c02:input-rejected")
		return
	}
	vReach("c02:input-accepted")
	vhStable(env)
}
