package lime

import (
	"context"
	"crypto/tls"
	"encoding/json"
	"io"
	"net"
	"time"
)

// ---- net.Conn stubs -----------------------------------------------------------------

type vhTimeoutErr struct{}

func (vhTimeoutErr) Error() string   { return "vh: i/o timeout" }
func (vhTimeoutErr) Timeout() bool   { return true }
func (vhTimeoutErr) Temporary() bool { return true }

type vhAddr struct{}

func (vhAddr) Network() string { return "tcp" }
func (vhAddr) String() string  { return "vh:0" }

// vhByteConn: a connection observed at byte level with an arbitrary fault schedule
// (short writes, transient timeouts, hard errors) within net.Conn's contract.
type vhByteConn struct {
	accepted    []byte // bytes the connection took from Write calls, in order
	delivered   []byte // bytes the connection handed out through Read calls, in order
	timeouts    int
	maxTimeouts int
	closed      bool
	rdl, wdl    []int64
}

func (c *vhByteConn) Write(p []byte) (int, error) {
	switch nondetChoice("w.outcome", 3) {
	case 0:
		c.accepted = append(c.accepted, p...)
		return len(p), nil
	case 1:
		// transient timeout after a (possibly empty) proper prefix was written
		vAssume(c.timeouts < c.maxTimeouts)
		c.timeouts++
		k := 0
		if len(p) > 0 {
			k = nondetRange("w.k", 0, len(p)-1)
		}
		c.accepted = append(c.accepted, p[:k]...)
		return k, vhTimeoutErr{}
	default:
		k := 0
		if len(p) > 0 {
			k = nondetRange("w.k", 0, len(p)-1)
		}
		c.accepted = append(c.accepted, p[:k]...)
		return k, errVhStub
	}
}

func (c *vhByteConn) Read(p []byte) (int, error) {
	switch nondetChoice("r.outcome", 4) {
	case 0:
		vAssume(len(p) > 0)
		n := nondetRange("r.n", 1, len(p))
		for i := 0; i < n; i++ {
			p[i] = nondetByte("r.byte")
			c.delivered = append(c.delivered, p[i])
		}
		return n, nil
	case 1:
		vAssume(c.timeouts < c.maxTimeouts)
		c.timeouts++
		return 0, vhTimeoutErr{}
	case 2:
		return 0, io.EOF
	default:
		return 0, errVhStub
	}
}

func (c *vhByteConn) Close() error                  { c.closed = true; return nil }
func (c *vhByteConn) LocalAddr() net.Addr           { return vhAddr{} }
func (c *vhByteConn) RemoteAddr() net.Addr          { return vhAddr{} }
func (c *vhByteConn) SetDeadline(t time.Time) error { return nil }
func (c *vhByteConn) SetReadDeadline(t time.Time) error {
	c.rdl = append(c.rdl, vInstant(t))
	return nil
}
func (c *vhByteConn) SetWriteDeadline(t time.Time) error {
	c.wdl = append(c.wdl, vInstant(t))
	return nil
}

func vhBytesEq(a, b []byte) bool {
	if len(a) != len(b) {
		return false
	}
	for i := 0; i < len(a); i++ {
		if a[i] != b[i] {
			return false
		}
	}
	return true
}

func vhIsPrefix(p, b []byte) bool {
	if len(p) > len(b) {
		return false
	}
	for i := 0; i < len(p); i++ {
		if p[i] != b[i] {
			return false
		}
	}
	return true
}

// HarnessC12Write: the write lemma of ctxConn.Write under short writes and transient timeouts.
func HarnessC12Write() {
	n := vParam("len", 3)
	b := make([]byte, n)
	for i := 0; i < n; i++ {
		b[i] = nondetByte("b")
	}
	conn := &vhByteConn{maxTimeouts: vParam("timeouts", 2)}
	cc := NewCtxConn(conn, 5*time.Second, 5*time.Second)
	cc.SetWriteContext(context.Background())
	m, err := cc.Write(b)
	vReach("c12:write-returned")
	if err == nil {
		vReach("c12:write-succeeded")
		vAssert(m == len(b), "c12:successful-write-reports-full-length")
		vAssert(vhBytesEq(conn.accepted, b), "c12:successful-write-puts-exactly-the-buffer-on-the-wire")
	} else {
		vAssert(vhIsPrefix(conn.accepted, b), "c12:failed-write-leaves-a-prefix-on-the-wire")
	}
}

// HarnessC12Read: the read lemma of ctxConn.Read.
func HarnessC12Read() {
	n := vParam("len", 3)
	buf := make([]byte, n)
	conn := &vhByteConn{maxTimeouts: vParam("timeouts", 2)}
	cc := NewCtxConn(conn, 5*time.Second, 5*time.Second)
	cc.SetReadContext(context.Background())
	m, err := cc.Read(buf)
	vReach("c12:read-returned")
	if err == nil {
		vReach("c12:read-succeeded")
		vAssert(m == len(conn.delivered), "c12:read-reports-what-the-connection-delivered")
		if m == len(conn.delivered) && m <= n {
			vAssert(vhBytesEq(buf[:m], conn.delivered), "c12:read-hands-over-the-delivered-bytes")
		}
	} else {
		vAssert(m == 0, "c12:failed-read-reports-zero")
		vAssert(len(conn.delivered) == 0, "c12:failed-read-consumed-nothing")
	}
}

// vhFrameConn: a connection observed at frame level: inbound data is an abstract stream of
// frames (symbolic sizes, arbitrary fragmentation), outbound frames are taken whole or not at all.
type vhFrameConn struct {
	in                              int // inbound stream handle
	frames                          [][]byte
	timeouts                        int
	maxTimeouts                     int
	closed                          bool
	cut                             bool
	consumed                        int // bytes handed out by Read so far
	reads                           int
	maxFrag                         int
	partials                        int
	viaTLS                          bool
	tlsWrites                       int
	wfails                          int // writes that failed for good
	plainWrites                     int
	handshakes                      int
	hsReadDeadline, hsWriteDeadline int64
	rdl, wdl                        []int64
}

func (c *vhFrameConn) Write(p []byte) (int, error) {
	switch nondetChoice("w.outcome", 3) {
	case 0:
		if c.viaTLS {
			c.tlsWrites++
		} else {
			c.plainWrites++
		}
		c.frames = append(c.frames, p)
		return len(p), nil
	case 1:
		vAssume(c.timeouts < c.maxTimeouts)
		c.timeouts++
		return 0, vhTimeoutErr{}
	default:
		c.wfails++
		return 0, errVhStub
	}
}

func (c *vhFrameConn) Read(p []byte) (int, error) {
	c.reads++
	if c.cut {
		return 0, errVhStub
	}
	switch nondetChoice("r.outcome", 3) {
	case 0:
		n := 0
		if c.partials < c.maxFrag && nondetBool("r.partial") {
			// an arbitrary fragment
			c.partials++
			n = vStreamRead(c.in, p, "r.n")
		} else {
			n = vStreamReadAll(c.in, p)
		}
		if n == 0 {
			if vStreamEOF(c.in) {
				return 0, io.EOF
			}
			// nothing to read: the peer is silent until the deadline
			vAssume(c.timeouts < c.maxTimeouts)
			c.timeouts++
			return 0, vhTimeoutErr{}
		}
		c.consumed += n
		return n, nil
	case 1:
		vAssume(c.timeouts < c.maxTimeouts)
		c.timeouts++
		return 0, vhTimeoutErr{}
	default:
		c.cut = true
		return 0, errVhStub
	}
}

func (c *vhFrameConn) Close() error                  { c.closed = true; return nil }
func (c *vhFrameConn) LocalAddr() net.Addr           { return vhAddr{} }
func (c *vhFrameConn) RemoteAddr() net.Addr          { return vhAddr{} }
func (c *vhFrameConn) SetDeadline(t time.Time) error { return nil }
func (c *vhFrameConn) SetReadDeadline(t time.Time) error {
	c.rdl = append(c.rdl, vInstant(t))
	return nil
}
func (c *vhFrameConn) SetWriteDeadline(t time.Time) error {
	c.wdl = append(c.wdl, vInstant(t))
	return nil
}

// vhTrace: a TraceWriter that discards (tracing enabled on the connection).
type vhDiscard struct{ n int }

func (d *vhDiscard) Write(p []byte) (int, error) { d.n += len(p); return len(p), nil }

type vhTrace struct {
	sw io.Writer
	rw io.Writer
}

func (t *vhTrace) SendWriter() *io.Writer    { return &t.sw }
func (t *vhTrace) ReceiveWriter() *io.Writer { return &t.rw }

func vhNewTCP(conn net.Conn, limit int64) *tcpTransport {
	if vParam("viaaccept", 0) == 1 {
		// the way a server gets its transports: through the TCP listener's Accept
		l := &tcpTransportListener{TCPConfig: TCPConfig{ReadLimit: limit}}
		if vParam("trace", 0) == 1 {
			l.TraceWriter = &vhTrace{sw: &vhDiscard{}, rw: &vhDiscard{}}
		}
		l.listener = vhNetListener{}
		l.done = make(chan struct{})
		l.connChan = make(chan net.Conn, 1)
		l.connChan <- conn
		tr, err := l.Accept(context.Background())
		if err == nil {
			if t, ok := tr.(*tcpTransport); ok {
				return t
			}
		}
	}
	t := &tcpTransport{TCPConfig: TCPConfig{ReadLimit: limit}}
	if vParam("trace", 0) == 1 {
		t.TraceWriter = &vhTrace{sw: &vhDiscard{}, rw: &vhDiscard{}}
	}
	t.setConn(conn)
	t.encryption = SessionEncryptionNone
	return t
}

func vhSameEnvelope(a, b envelope) bool {
	switch x := a.(type) {
	case *Message:
		y, ok := b.(*Message)
		return ok && x.ID == y.ID
	case *Notification:
		y, ok := b.(*Notification)
		return ok && x.ID == y.ID
	case *RequestCommand:
		y, ok := b.(*RequestCommand)
		return ok && x.ID == y.ID
	case *ResponseCommand:
		y, ok := b.(*ResponseCommand)
		return ok && x.ID == y.ID && x.Status == y.Status
	case *Session:
		y, ok := b.(*Session)
		return ok && x.ID == y.ID && x.State == y.State
	}
	return false
}

func vhWireEnvelope(kind int, id string) envelope {
	switch kind {
	case 2:
		return &RequestCommand{Command: Command{Envelope: Envelope{ID: id}, Method: CommandMethodGet}, URI: &URI{url: vhURL("/x")}}
	case 4:
		return &Session{Envelope: Envelope{ID: id}, State: SessionStateEstablished}
	}
	return vhEnvelopeOfKind(kind, id)
}

var vhIDs = []string{"e0", "e1", "e2"}

// vhCancelCtx: a caller's context that may be cancelled at any of its first few inspections.
type vhCancelCtx struct {
	cancelled bool
	checks    int
	maxChecks int
}

func (c *vhCancelCtx) Deadline() (time.Time, bool)       { return time.Time{}, false }
func (c *vhCancelCtx) Done() <-chan struct{}             { return nil }
func (c *vhCancelCtx) Value(key interface{}) interface{} { return nil }
func (c *vhCancelCtx) Err() error {
	if !c.cancelled && c.checks < c.maxChecks {
		c.checks++
		if nondetBool("ctx.cancelled") {
			c.cancelled = true
		}
	}
	if c.cancelled {
		return context.Canceled
	}
	return nil
}

// HarnessC12Receive: the receiving end yields exactly the sent sequence, or an error.
func HarnessC12Receive() {
	in := vStreamNew("in")
	conn := &vhFrameConn{in: in, maxTimeouts: vParam("timeouts", 2), maxFrag: vParam("frag", 2)}
	// every frame is within the read limit
	t := vhNewTCP(conn, 4096)
	k := nondetRange("frames", 0, vParam("frames", 2))
	var sent []envelope
	garbageAt := -1
	for i := 0; i < k; i++ {
		if vParam("garbage", 0) == 1 && garbageAt < 0 && nondetBool("garbage") {
			garbageAt = i
			vStreamPutGarbage(in, 3)
		}
		kind := vhChoice([]string{"kind0", "kind1", "kind2"}[i], 6)
		var e envelope
		if kind == 5 {
			// a message whose JSON content looks like an envelope itself; the frame's blanks sit in front of it
			e = &Message{Envelope: Envelope{ID: vhIDs[i]}, Type: MediaTypeApplicationJson(),
				Content: &JsonDocument{"event": "received", "id": "nested"}}
		} else {
			e = vhWireEnvelope(kind, vhIDs[i])
		}
		b, err := json.Marshal(e)
		vAssume(err == nil)
		size := nondetInt("size")
		vAssume(size >= 128)
		vAssume(size <= 4096)
		if kind == 5 {
			vStreamPutSplit(in, b, vJSONText(`{"event":"received","id":"nested"}`), size)
		} else {
			vStreamPut(in, b, size)
		}
		sent = append(sent, e)
	}
	if nondetBool("peer.closes") {
		vStreamClose(in)
	}
	vReach("c12:stream-prepared")
	got := 0
	errors := 0
	abandoned := false
	for j := 0; j < k+1; j++ {
		var ctx context.Context = context.Background()
		if j == 0 && vParam("cancel", 0) == 1 {
			// the caller may give up on the first receive at any moment
			ctx = &vhCancelCtx{maxChecks: 3}
		}
		env, err := t.Receive(ctx)
		if err != nil {
			vReach("c12:receive-error")
			if cc, ok := ctx.(*vhCancelCtx); ok && cc.cancelled {
				abandoned = true
			}
			errors++
			if errors > 1 {
				break
			}
			// keep using the transport after a failed receive: it must not make anything up
			continue
		}
		vReach("c12:received-one")
		vAssert(got < k, "c12:no-fabricated-envelope")
		if got >= k {
			break
		}
		vAssert(garbageAt < 0 || got < garbageAt, "c12:nothing-delivered-past-undecodable-bytes")
		vAssert(vhSameEnvelope(env, sent[got]), "c12:envelopes-arrive-intact-and-in-order")
		got++
	}
	// without faults everything that was sent is received
	if !conn.cut && garbageAt < 0 && conn.timeouts < conn.maxTimeouts && !abandoned {
		vAssert(got == k, "c12:everything-sent-is-received")
	}
	if vStreamEOF(in) && got == k && !conn.cut && garbageAt < 0 && conn.timeouts < conn.maxTimeouts && !abandoned {
		vAssert(!t.Connected(), "c12:end-of-stream-marks-the-transport-disconnected")
	}
}

// HarnessC12Send: Send reports success exactly when one whole frame went out.
func HarnessC12Send() {
	in := vStreamNew("in")
	conn := &vhFrameConn{in: in, maxTimeouts: vParam("timeouts", 2)}
	t := vhNewTCP(conn, 1<<20)
	n := vParam("sends", 2)
	ok := 0
	for i := 0; i < n; i++ {
		e := vhWireEnvelope(nondetChoice("kind", 5), vhIDs[i])
		before := len(conn.frames)
		err := t.Send(context.Background(), e)
		vReach("c12:send-returned")
		if err == nil {
			ok++
			vAssert(len(conn.frames) == before+1, "c12:successful-send-writes-exactly-one-frame")
		} else {
			vAssert(len(conn.frames) == before, "c12:failed-send-writes-no-frame")
		}
	}
	vAssert(len(conn.frames) == ok, "c12:frames-on-the-wire-equal-successful-sends")
}

// ---- C16: the read limit bounds what one receive consumes ----------------------------

func HarnessC16Budget() {
	limit := nondetInt("limit")
	vAssume(limit >= 256)
	vAssume(limit <= 4096)
	in := vStreamNew("in")
	conn := &vhFrameConn{in: in, maxTimeouts: vParam("timeouts", 1), maxFrag: vParam("frag", 2)}
	t := vhNewTCP(conn, int64(limit))
	// optional predecessors within the limit (they create arbitrary read-ahead)
	npre := nondetRange("predecessors", 0, vParam("pre", 1))
	preBad := make([]bool, npre)
	for i := 0; i < npre; i++ {
		b, _ := json.Marshal(vhWireEnvelope(0, vhIDs[i]))
		if nondetBool("pre.not-an-envelope") {
			// well-formed JSON that is no envelope: the receive fails, the connection goes on
			preBad[i] = true
			b = vJSONText(`{"id":"x"}`)
		}
		s := nondetInt("presize")
		vAssume(s >= 128)
		vAssume(s <= limit)
		vStreamPut(in, b, s)
	}
	b, _ := json.Marshal(vhWireEnvelope(0, "big"))
	size := nondetInt("size")
	vAssume(size >= 128)
	vAssume(size <= 3*limit+64)
	vStreamPut(in, b, size)
	// what follows on the connection (more data keeps coming)
	b2, _ := json.Marshal(vhWireEnvelope(1, "next"))
	vStreamPut(in, b2, 128)
	vReach("c16:stream-prepared")
	for i := 0; i < npre; i++ {
		before := conn.consumed
		_, err := t.Receive(context.Background())
		vAssert(conn.consumed-before <= limit, "c16:no-receive-consumes-more-than-the-limit")
		if preBad[i] {
			vAssert(err != nil, "c16:non-envelope-json-is-rejected")
			if conn.cut || conn.timeouts >= conn.maxTimeouts {
				return
			}
			continue
		}
		if err != nil {
			// a fault (cut, exhausted stalls) ended the connection
			vAssert(conn.cut || conn.timeouts >= conn.maxTimeouts, "c16:envelope-within-limit-is-accepted")
			return
		}
	}
	vAssert(t.limitedReader.N == int64(limit), "c16:budget-is-restored-after-each-envelope")
	before := conn.consumed
	env, err := t.Receive(context.Background())
	vReach("c16:receive-returned")
	vAssert(conn.consumed-before <= limit, "c16:no-receive-consumes-more-than-the-limit")
	if size > 2*limit {
		vReach("c16:oversized")
		vAssert(err != nil, "c16:envelope-above-twice-the-limit-is-rejected")
	}
	if size <= limit && !conn.cut && conn.timeouts < conn.maxTimeouts {
		vReach("c16:within-limit")
		vAssert(err == nil, "c16:envelope-within-limit-is-accepted")
		if err == nil {
			m, ok := env.(*Message)
			vAssert(ok, "c16:accepted-envelope-is-the-one-sent")
			if ok {
				vAssert(m.ID == "big", "c16:accepted-envelope-has-the-sent-id")
			}
		}
	}
}

// HarnessC14TCP: a handshake that fails on a real TCP transport (oversized or undecodable first
// envelope, a peer that vanishes) leaves the socket closed.
func HarnessC14TCP() {
	in := vStreamNew("in")
	conn := &vhFrameConn{in: in, maxTimeouts: 1, maxFrag: 1}
	limit := 1024
	t := vhNewTCP(conn, int64(limit))
	t.server = true
	switch vhChoice("fault", 4) {
	case 0: // an envelope far larger than the read limit
		b, _ := json.Marshal(&Session{State: SessionStateNew})
		vStreamPut(in, b, 4096)
	case 1: // undecodable bytes
		vStreamPutGarbage(in, 16)
	case 2: // the peer connects and goes away at once
		vStreamClose(in)
	default: // a valid envelope that is not a session, then silence until the peer leaves
		b, _ := json.Marshal(vhWireEnvelope(0, "m"))
		vStreamPut(in, b, 256)
		vStreamClose(in)
	}
	established, finished := 0, 0
	cfg := &ServerConfig{Node: Node{Identity{"postmaster", "srv"}, "s1"}, CompOpts: []SessionCompression{SessionCompressionNone},
		EncryptOpts: []SessionEncryption{SessionEncryptionNone}, SchemeOpts: []AuthenticationScheme{AuthenticationSchemeGuest}, ChannelBufferSize: 1,
		Authenticate: func(ctx context.Context, id Identity, a Authentication) (*AuthenticationResult, error) {
			return MemberAuthenticationResult(), nil
		},
		Register:    func(ctx context.Context, n Node, c *ServerChannel) (Node, error) { return n, nil },
		Established: func(id string, c *ServerChannel) { established++ },
		Finished:    func(id string) { finished++ },
	}
	srv := &Server{config: cfg, mux: &EnvelopeMux{}}
	sc := NewServerChannel(t, 1, cfg.Node, vhSID)
	ctx, cancel := context.WithTimeout(context.Background(), 300*time.Millisecond)
	defer cancel()
	srv.handleChannel(ctx, sc)
	vQuiesce()
	vReach("c14:tcp-serve-returned")
	vAssert(conn.closed, "c14:tcp-socket-closed-after-failed-handshake")
	vAssert(established == 0 && finished == 0, "c14:tcp-no-callbacks-for-failed-handshake")
	vAssert(vThreadsLive() <= 0, "c14:tcp-no-goroutine-left")
}

// ---- C09 (transport level): tcpTransport.SetEncryption ------------------------------------------

// VMarkTLS / VTLSHandshake: hooks the engine's TLS stub calls on the wrapped connection.
func (c *vhFrameConn) VMarkTLS(on bool) { c.viaTLS = on }
func (c *vhFrameConn) VTLSHandshake() {
	c.handshakes++
	// the deadlines in force while the handshake runs
	if len(c.rdl) > 0 {
		c.hsReadDeadline = c.rdl[len(c.rdl)-1]
	}
	if len(c.wdl) > 0 {
		c.hsWriteDeadline = c.wdl[len(c.wdl)-1]
	}
}

func HarnessC09TCPEncryption() {
	in := vStreamNew("in")
	conn := &vhFrameConn{in: in, maxTimeouts: 1, maxFrag: 1}
	t := &tcpTransport{TCPConfig: TCPConfig{ReadLimit: 4096}}
	if nondetBool("tls-config") {
		t.TLSConfig = &tls.Config{}
	}
	t.server = nondetBool("server-side")
	t.setConn(conn)
	t.encryption = SessionEncryptionNone
	start := vNow()
	var ctx context.Context = context.Background()
	hasDeadline := nondetBool("ctx.deadline")
	dlOff := int64(nondetInt("ctx.deadline-after"))
	vAssume(dlOff < int64(1000*time.Hour))
	dl := start + dlOff
	if hasDeadline {
		vAssume(dl > start)
		c, cancel := context.WithDeadline(context.Background(), vTimeOf(dl))
		defer cancel()
		ctx = c
	}
	first := SessionEncryption(nondetOneOf("first", "none|tls"))
	err1 := t.SetEncryption(ctx, first)
	vReach("c09:setencryption-returned")
	if first == SessionEncryptionNone {
		vAssert(err1 == nil, "c09:same-value-is-a-no-op")
		vAssert(conn.handshakes == 0, "c09:no-handshake-for-a-no-op")
		vAssert(t.Encryption() == SessionEncryptionNone, "c09:no-op-keeps-encryption")
		return
	}
	if t.TLSConfig == nil {
		vAssert(err1 != nil, "c09:tls-without-config-is-refused")
		vAssert(t.Encryption() == SessionEncryptionNone, "c09:refused-upgrade-keeps-cleartext")
		return
	}
	if err1 != nil {
		vReach("c09:handshake-failed")
		vAssert(t.Encryption() == SessionEncryptionNone, "c09:failed-handshake-keeps-cleartext")
		// the deadlines armed on the socket for the handshake (observable natively as well, where the
		// real TLS handshake fails against the stub connection)
		vAssert(len(conn.rdl) > 0 && len(conn.wdl) > 0, "c09:handshake-runs-under-a-deadline")
		if len(conn.rdl) > 0 && len(conn.wdl) > 0 {
			r, w := conn.rdl[len(conn.rdl)-1], conn.wdl[len(conn.wdl)-1]
			if hasDeadline {
				vAssert(r == dl && w == dl, "c09:handshake-deadline-is-the-contexts")
			} else {
				vAssert(r <= vNow()+int64(30*time.Second) && w == r, "c09:handshake-deadline-within-thirty-seconds")
			}
		}
		return
	}
	vReach("c09:upgraded")
	vAssert(conn.handshakes == 1, "c09:exactly-one-handshake")
	vAssert(t.Encryption() == SessionEncryptionTLS, "c09:encryption-reported-after-upgrade")
	// the handshake ran under a deadline taken from the context (or 30 s)
	if hasDeadline {
		vAssert(conn.hsReadDeadline == dl && conn.hsWriteDeadline == dl, "c09:handshake-deadline-is-the-contexts")
	} else {
		vAssert(conn.hsReadDeadline <= vNow()+int64(30*time.Second), "c09:handshake-deadline-within-thirty-seconds")
	}
	// everything that follows travels through TLS
	conn.plainWrites = 0
	serr := t.Send(context.Background(), vhWireEnvelope(4, "s"))
	if serr == nil {
		vAssert(conn.tlsWrites >= 1 && conn.plainWrites == 0, "c09:writes-after-upgrade-go-through-tls")
	}
	// a downgrade is refused, the same value again is a no-op
	vAssert(t.SetEncryption(ctx, SessionEncryptionNone) != nil, "c09:downgrade-is-refused")
	vAssert(t.SetEncryption(ctx, SessionEncryptionTLS) == nil, "c09:same-value-after-upgrade-is-a-no-op")
	vAssert(conn.handshakes == 1, "c09:no-second-handshake")
}

// HarnessC10TCP: the documented case - EncryptionOptions(TLS) on a TLS-capable TCP connection (a
// tls.Config with static or dynamically chosen certificates): the real tcpTransport reports TLS as
// supported, so the server's first answer to `new` offers exactly [tls] and no credentials are requested
// while the connection is still cleartext.
func HarnessC10TCP() {
	in := vStreamNew("in")
	conn := &vhFrameConn{in: in, maxTimeouts: 1, maxFrag: 1}
	t := vhNewTCP(conn, 4096)
	t.server = true
	if vhChoice("certs", 2) == 0 {
		t.TLSConfig = &tls.Config{Certificates: make([]tls.Certificate, 1)}
	} else {
		// certificates chosen per connection
		t.TLSConfig = &tls.Config{GetCertificate: func(*tls.ClientHelloInfo) (*tls.Certificate, error) { return nil, errVhStub }}
	}
	b, _ := json.Marshal(&Session{State: SessionStateNew})
	vStreamPut(in, b, 128)
	vStreamClose(in)
	sc := NewServerChannel(t, 1, Node{Identity{"postmaster", "srv"}, "s1"}, vhSID)
	ctx, cancel := context.WithTimeout(context.Background(), 300*time.Millisecond)
	defer cancel()
	_ = sc.EstablishSession(ctx, []SessionCompression{SessionCompressionNone}, []SessionEncryption{SessionEncryptionTLS},
		[]AuthenticationScheme{AuthenticationSchemeGuest},
		func(ctx context.Context, id Identity, a Authentication) (*AuthenticationResult, error) {
			return MemberAuthenticationResult(), nil
		},
		func(ctx context.Context, n Node, c *ServerChannel) (Node, error) { return n, nil })
	vReach("c10:tcp-handshake-returned")
	if conn.cut || conn.timeouts > 0 || conn.wfails > 0 {
		return
	}
	vAssert(len(conn.frames) >= 1, "c10:tcp-server-answers-new")
	for i := 0; i < len(conn.frames); i++ {
		var raw rawEnvelope
		if json.Unmarshal(conn.frames[i], &raw) != nil {
			continue
		}
		e, err := raw.toEnvelope()
		if err != nil {
			continue
		}
		s, ok := e.(*Session)
		if !ok {
			continue
		}
		if i == 0 {
			vAssert(s.State == SessionStateNegotiating && len(s.EncryptionOptions) == 1 && s.EncryptionOptions[0] == SessionEncryptionTLS,
				"c10:tcp-first-answer-offers-exactly-tls")
		}
		vAssert(s.State != SessionStateAuthenticating && s.State != SessionStateEstablished, "c10:tcp-no-credentials-requested-in-cleartext")
	}
}
