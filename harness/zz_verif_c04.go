package lime

import (
	"context"
	"time"
)

// ---- C04: established channels deliver every envelope exactly once, intact, in order ------

type vhDelivery struct {
	got []envelope
}

func (d *vhDelivery) mux() *EnvelopeMux {
	m := &EnvelopeMux{}
	m.MessageHandlerFunc(nil, func(ctx context.Context, e *Message, s Sender) error { d.got = append(d.got, e); return nil })
	m.NotificationHandlerFunc(nil, func(ctx context.Context, e *Notification) error { d.got = append(d.got, e); return nil })
	m.RequestCommandHandlerFunc(nil, func(ctx context.Context, e *RequestCommand, s Sender) error { d.got = append(d.got, e); return nil })
	m.ResponseCommandHandlerFunc(nil, func(ctx context.Context, e *ResponseCommand, s Sender) error { d.got = append(d.got, e); return nil })
	return m
}

func vhKindOf(e envelope) int {
	switch e.(type) {
	case *Message:
		return 0
	case *Notification:
		return 1
	case *RequestCommand:
		return 2
	case *ResponseCommand:
		return 3
	}
	return 4
}

func vhSendKind(c *channel, ctx context.Context, e envelope) error {
	switch x := e.(type) {
	case *Message:
		return c.SendMessage(ctx, x)
	case *Notification:
		return c.SendNotification(ctx, x)
	case *RequestCommand:
		return c.SendRequestCommand(ctx, x)
	case *ResponseCommand:
		return c.SendResponseCommand(ctx, x)
	}
	return errVhStub
}

// HarnessC04Pipe: two established channels joined by the real in-process transport; sender goroutines on
// one side, the real receiver goroutine and dispatch loop on the other.
func HarnessC04Pipe() {
	senders := vParam("senders", 1)
	per := vParam("per", 2)
	buf := vParam("buf", 1)
	a, b := newInProcessTransportPair("c04", vParam("tbuf", 1))
	ca := newChannel(a, buf)
	cb := newChannel(b, buf)
	ca.state = SessionStateEstablished
	ca.sessionID = vhSID
	cb.sessionID = vhSID
	cb.setState(SessionStateEstablished) // starts the real receiver goroutine
	// workload drawn up front
	sent := make([][]envelope, senders)
	okSend := make([][]bool, senders)
	for s := 0; s < senders; s++ {
		for i := 0; i < per; i++ {
			sent[s] = append(sent[s], vhEnvelopeOfKind(nondetChoice("kind", 4), "e"))
			okSend[s] = append(okSend[s], false)
		}
	}
	d := &vhDelivery{}
	mux := d.mux()
	ctx, cancel := context.WithCancel(context.Background())
	listenDone := false
	go func() {
		_ = mux.listen(ctx, cb)
		listenDone = true
	}()
	for s := 0; s < senders; s++ {
		s := s
		go func() {
			for i := 0; i < len(sent[s]); i++ {
				sctx, scancel := context.WithTimeout(context.Background(), 5*time.Second)
				okSend[s][i] = vhSendKind(ca, sctx, sent[s][i]) == nil
				scancel()
			}
		}()
	}
	vQuiesce()
	vReach("c04:settled")
	// every envelope whose send succeeded was delivered exactly once, nothing else was delivered
	for s := 0; s < senders; s++ {
		for i := 0; i < len(sent[s]); i++ {
			n := 0
			for k := 0; k < len(d.got); k++ {
				if d.got[k] == sent[s][i] {
					n++
				}
			}
			vAssert(okSend[s][i], "c04:send-on-established-channel-succeeds")
			if okSend[s][i] {
				vAssert(n == 1, "c04:sent-envelope-delivered-exactly-once")
			} else {
				vAssert(n <= 1, "c04:failed-send-delivered-at-most-once")
			}
		}
	}
	for k := 0; k < len(d.got); k++ {
		found := false
		for s := 0; s < senders; s++ {
			for i := 0; i < len(sent[s]); i++ {
				if sent[s][i] == d.got[k] {
					found = true
				}
			}
		}
		vAssert(found, "c04:nothing-delivered-that-was-not-sent")
	}
	// envelopes of one kind sent by one goroutine arrive in the order sent
	for s := 0; s < senders; s++ {
		for i := 0; i < len(sent[s]); i++ {
			for j := i + 1; j < len(sent[s]); j++ {
				if vhKindOf(sent[s][i]) != vhKindOf(sent[s][j]) {
					continue
				}
				pi, pj := -1, -1
				for k := 0; k < len(d.got); k++ {
					if d.got[k] == sent[s][i] {
						pi = k
					}
					if d.got[k] == sent[s][j] {
						pj = k
					}
				}
				if pi >= 0 && pj >= 0 {
					vAssert(pi < pj, "c04:same-kind-order-preserved")
				}
			}
		}
	}
	cancel()
	vQuiesce()
	vAssert(listenDone, "c04:dispatch-loop-stops-with-its-context")
}

// HarnessC04Route: one iteration of the real receiver routes an arbitrary inbound envelope to exactly
// one inbound stream, of its kind, as received.
func HarnessC04Route() {
	t := &vhTransport{depth: 1, enc: SessionEncryptionNone, comp: SessionCompressionNone}
	kind := nondetChoice("kind", 4)
	e := vhEnvelopeOfKind(kind, "e")
	t.rx = func(*vhTransport) (envelope, error) { return e, nil }
	c := newChannel(t, 2)
	c.sessionID = vhSID
	c.setState(SessionStateEstablished)
	vQuiesce() // the receiver reads the envelope, then the scripted peer vanishes and the receiver ends
	vReach("c04:receiver-ran")
	total := len(c.inMsgChan) + len(c.inNotChan) + len(c.inReqCmdChan) + len(c.inRespCmdChan)
	vAssert(total == 1, "c04:inbound-envelope-on-exactly-one-stream")
	switch kind {
	case 0:
		vAssert(len(c.inMsgChan) == 1, "c04:message-on-message-stream")
		if len(c.inMsgChan) == 1 {
			vAssert(<-c.inMsgChan == e.(*Message), "c04:stream-carries-the-envelope-as-received")
		}
	case 1:
		vAssert(len(c.inNotChan) == 1, "c04:notification-on-notification-stream")
		if len(c.inNotChan) == 1 {
			vAssert(<-c.inNotChan == e.(*Notification), "c04:stream-carries-the-envelope-as-received")
		}
	case 2:
		vAssert(len(c.inReqCmdChan) == 1, "c04:request-on-request-stream")
		if len(c.inReqCmdChan) == 1 {
			vAssert(<-c.inReqCmdChan == e.(*RequestCommand), "c04:stream-carries-the-envelope-as-received")
		}
	default:
		vAssert(len(c.inRespCmdChan) == 1, "c04:response-on-response-stream")
		if len(c.inRespCmdChan) == 1 {
			vAssert(<-c.inRespCmdChan == e.(*ResponseCommand), "c04:stream-carries-the-envelope-as-received")
		}
	}
}
