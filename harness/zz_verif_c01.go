package lime

import (
	"encoding/json"
	"net/url"
)

// ---- C01: envelope JSON round trip -------------------------------------------

// vhCustomDoc is a document type registered by the harness (a "registered custom type").
type vhCustomDoc struct {
	A string `json:"a"`
	N int    `json:"n,omitempty"`
}

func vhCustomMediaType() MediaType          { return MediaType{"application", "x-verif", "json"} }
func (d *vhCustomDoc) MediaType() MediaType { return vhCustomMediaType() }

func vhRegisterCustom() {
	RegisterDocumentFactory(func() Document { return &vhCustomDoc{} })
}

const (
	vhDocText = iota
	vhDocJSON
	vhDocPing
	vhDocCustom
	vhDocContainer
	vhDocCollection
	vhDocKinds
)

// vhDoc builds an arbitrary document of the given kind (kind < 0: any), nested to depth.
func vhDoc(tag string, kind, depth, cap int) Document {
	if kind < 0 {
		n := vhDocKinds
		if depth <= 0 {
			n = vhDocContainer
		}
		kind = nondetChoice(tag+".kind", n)
	}
	switch kind {
	case vhDocText:
		d := TextDocument(nondetString(tag+".text", cap))
		return &d
	case vhDocJSON:
		return &JsonDocument{"k": nondetString(tag+".jv", cap), "n": nondetString(tag+".jw", cap)}
	case vhDocPing:
		return &Ping{}
	case vhDocCustom:
		return &vhCustomDoc{A: nondetString(tag+".a", cap), N: nondetInt(tag + ".n")}
	case vhDocContainer:
		inner := vhDoc(tag+".in", -1, depth-1, cap)
		return NewDocumentContainer(inner)
	default:
		n := nondetRange(tag+".items", 0, vParam("items", 1))
		ik := nondetChoice(tag+".itemkind", vhDocContainer+boolToInt(depth > 1))
		items := make([]Document, n)
		if n == 0 && nondetBool(tag+".items.nil") {
			// a page past the end: no items at all, but a total
			items = nil
		}
		for i := 0; i < n; i++ {
			items[i] = vhDoc(tag+".it", ik, depth-1, cap)
		}
		var it MediaType
		if n > 0 {
			it = items[0].MediaType()
		} else {
			it = vhDoc(tag+".proto", ik, 0, 0).MediaType()
		}
		c := NewDocumentCollection(items, it)
		c.Total = nondetInt(tag + ".total")
		return c
	}
}

func boolToInt(b bool) int {
	if b {
		return 1
	}
	return 0
}

func vhMetadata(tag string, cap int) map[string]string {
	n := nondetRange(tag+".n", 0, vParam("meta", 1))
	if n == 0 {
		return nil
	}
	m := map[string]string{}
	k0 := nondetString(tag+".k0", cap)
	m[k0] = nondetString(tag+".v0", cap)
	if n > 1 {
		k1 := nondetString(tag+".k1", cap)
		vAssume(k1 != k0)
		m[k1] = nondetString(tag+".v1", cap)
	}
	return m
}

func vhEnvelope(tag string, cap int) Envelope {
	return Envelope{ID: nondetString(tag+".id", cap), From: vhNode(tag+".from", cap, true), PP: vhNode(tag+".pp", cap, true),
		To: vhNode(tag+".to", cap, true), Metadata: vhMetadata(tag+".meta", cap)}
}

func vhEnvelopeEq(a, b *Envelope) bool {
	return a.ID == b.ID && a.From == b.From && a.PP == b.PP && a.To == b.To && vDeepEqual(a.Metadata, b.Metadata)
}

func vhMediaTypeEqPtr(a, b *MediaType) bool {
	if a == nil || b == nil {
		return a == nil && b == nil
	}
	return *a == *b
}

// HarnessC01Message: message round trip through the typed decoder and the transport path.
func HarnessC01Message() {
	cap := vParam("cap", 2)
	vhRegisterCustom()
	msg := &Message{Envelope: vhEnvelope("env", cap)}
	switch d := vParam("doc", -1); d {
	case 6:
		// plain content under an arbitrary media type nobody registered (e.g. application/x-note)
		t := TextDocument(nondetString("doc.text", cap))
		msg.Content = &t
		msg.Type = MediaType{vhMediaPart("mt.type", 3), vhMediaPart("mt.subtype", 3), ""}
		vAssume(msg.Type.Type != "")
		vAssume(msg.Type.Subtype != "")
	case 7:
		// generic JSON content under an arbitrary unregistered +json type
		msg.Content = &JsonDocument{"k": nondetString("doc.jv", cap)}
		msg.Type = MediaType{vhMediaPart("mt.type", 3), vhMediaPart("mt.subtype", 3), "json"}
		vAssume(msg.Type.Type != "")
		vAssume(msg.Type.Subtype != "x")
	default:
		msg.SetContent(vhDoc("doc", d, vParam("depth", 1), cap))
	}
	vReach("c01:message-built")

	b, err := json.Marshal(msg)
	vAssert(err == nil, "c01:message-encodes")
	if err != nil {
		return
	}
	var m2 Message
	err = json.Unmarshal(b, &m2)
	vAssert(err == nil, "c01:message-decodes-typed")
	if err == nil {
		vAssert(vhEnvelopeEq(&m2.Envelope, &msg.Envelope), "c01:message-typed-envelope-fields")
		vAssert(m2.Type == msg.Type, "c01:message-typed-type")
		vAssert(vDeepEqual(m2.Content, msg.Content), "c01:message-typed-content")
	}
	var raw rawEnvelope
	err = json.Unmarshal(b, &raw)
	vAssert(err == nil, "c01:message-decodes-raw")
	if err != nil {
		return
	}
	env, err := raw.toEnvelope()
	vAssert(err == nil, "c01:message-decodes-transport")
	if err != nil {
		return
	}
	m3, ok := env.(*Message)
	vAssert(ok, "c01:message-kind-on-transport-path")
	if !ok {
		return
	}
	vReach("c01:message-roundtrip-done")
	vAssert(vhEnvelopeEq(&m3.Envelope, &msg.Envelope), "c01:message-transport-envelope-fields")
	vAssert(m3.Type == msg.Type, "c01:message-transport-type")
	vAssert(vDeepEqual(m3.Content, msg.Content), "c01:message-transport-content")
}

func HarnessC01Notification() {
	cap := vParam("cap", 2)
	not := &Notification{Envelope: vhEnvelope("env", cap), Event: vhEvent("event"), Reason: vhReason("reason", cap)}
	vReach("c01:notification-built")
	b, err := json.Marshal(not)
	vAssert(err == nil, "c01:notification-encodes")
	if err != nil {
		return
	}
	var n2 Notification
	err = json.Unmarshal(b, &n2)
	vAssert(err == nil, "c01:notification-decodes-typed")
	if err == nil {
		vAssert(vhEnvelopeEq(&n2.Envelope, &not.Envelope), "c01:notification-typed-envelope-fields")
		vAssert(n2.Event == not.Event, "c01:notification-typed-event")
		vAssert(vhReasonEq(n2.Reason, not.Reason), "c01:notification-typed-reason")
	}
	env, _, derr := vhWire(not)
	vAssert(derr == nil, "c01:notification-decodes-transport")
	if derr != nil {
		return
	}
	n3, ok := env.(*Notification)
	vAssert(ok, "c01:notification-kind-on-transport-path")
	if !ok {
		return
	}
	vReach("c01:notification-roundtrip-done")
	vAssert(vhEnvelopeEq(&n3.Envelope, &not.Envelope), "c01:notification-transport-envelope-fields")
	vAssert(n3.Event == not.Event, "c01:notification-transport-event")
	vAssert(vhReasonEq(n3.Reason, not.Reason), "c01:notification-transport-reason")
}

func vhCommand(cap int) Command {
	c := Command{Envelope: vhEnvelope("env", cap), Method: vhMethod("method")}
	if d := vParam("doc", -1); d != 6 {
		if d >= 0 || nondetBool("resource.present") {
			c.SetResource(vhDoc("res", d, vParam("depth", 1), cap))
		}
	}
	return c
}

func vhCommandEq(a, b *Command) bool {
	return vhEnvelopeEq(&a.Envelope, &b.Envelope) && a.Method == b.Method && vhMediaTypeEqPtr(a.Type, b.Type) &&
		vDeepEqual(a.Resource, b.Resource)
}

func HarnessC01Response() {
	cap := vParam("cap", 2)
	vhRegisterCustom()
	cmd := &ResponseCommand{Command: vhCommand(cap), Reason: vhReason("reason", cap)}
	// a response is recognisable on the wire only with a status (documented: success | failure)
	if nondetBool("failure") {
		cmd.Status = CommandStatusFailure
	} else {
		cmd.Status = CommandStatusSuccess
	}
	vReach("c01:response-built")
	b, err := json.Marshal(cmd)
	vAssert(err == nil, "c01:response-encodes")
	if err != nil {
		return
	}
	var c2 ResponseCommand
	err = json.Unmarshal(b, &c2)
	vAssert(err == nil, "c01:response-decodes-typed")
	if err == nil {
		vAssert(vhCommandEq(&c2.Command, &cmd.Command), "c01:response-typed-command-fields")
		vAssert(c2.Status == cmd.Status, "c01:response-typed-status")
		vAssert(vhReasonEq(c2.Reason, cmd.Reason), "c01:response-typed-reason")
	}
	env, _, derr := vhWire(cmd)
	vAssert(derr == nil, "c01:response-decodes-transport")
	if derr != nil {
		return
	}
	c3, ok := env.(*ResponseCommand)
	vAssert(ok, "c01:response-kind-on-transport-path")
	if !ok {
		return
	}
	vReach("c01:response-roundtrip-done")
	vAssert(vhCommandEq(&c3.Command, &cmd.Command), "c01:response-transport-command-fields")
	vAssert(c3.Status == cmd.Status, "c01:response-transport-status")
	vAssert(vhReasonEq(c3.Reason, cmd.Reason), "c01:response-transport-reason")
}

var vhStates = []SessionState{SessionStateNew, SessionStateNegotiating, SessionStateAuthenticating, SessionStateEstablished,
	SessionStateFinishing, SessionStateFinished, SessionStateFailed}
var vhSchemes = []AuthenticationScheme{AuthenticationSchemeGuest, AuthenticationSchemePlain, AuthenticationSchemeKey,
	AuthenticationSchemeTransport, AuthenticationSchemeExternal}

func vhState(tag string) SessionState {
	if i := vParam("state", -1); i >= 0 {
		return vhStates[i]
	}
	return SessionState(nondetOneOf(tag, "new|negotiating|authenticating|established|finishing|finished|failed"))
}

func vhAuthOf(tag string, scheme, cap int) Authentication {
	switch scheme {
	case 0:
		return &GuestAuthentication{}
	case 1:
		return &PlainAuthentication{Password: nondetString(tag+".pw", cap)}
	case 2:
		return &KeyAuthentication{Key: nondetString(tag+".key", cap)}
	case 3:
		return &TransportAuthentication{}
	default:
		return &ExternalAuthentication{Token: nondetString(tag+".tok", cap), Issuer: nondetString(tag+".iss", cap)}
	}
}

func vhEncList(tag string) []SessionEncryption {
	switch nondetChoice(tag, 4) {
	case 0:
		return nil
	case 1:
		return []SessionEncryption{SessionEncryptionNone}
	case 2:
		return []SessionEncryption{SessionEncryptionTLS}
	default:
		return []SessionEncryption{SessionEncryptionNone, SessionEncryptionTLS}
	}
}

func vhCompList(tag string) []SessionCompression {
	switch nondetChoice(tag, 3) {
	case 0:
		return nil
	case 1:
		return []SessionCompression{SessionCompressionNone}
	default:
		return []SessionCompression{SessionCompressionNone, SessionCompressionGzip}
	}
}

func vhSchemeList(tag string) []AuthenticationScheme {
	n := nondetRange(tag+".n", 0, 2)
	if n == 0 {
		return nil
	}
	l := make([]AuthenticationScheme, n)
	for i := 0; i < n; i++ {
		l[i] = AuthenticationScheme(nondetString(tag+".s", 3))
	}
	return l
}

func vhSessionEq(a, b *Session) bool {
	return vhEnvelopeEq(&a.Envelope, &b.Envelope) && a.State == b.State &&
		vDeepEqual(a.EncryptionOptions, b.EncryptionOptions) && a.Encryption == b.Encryption &&
		vDeepEqual(a.CompressionOptions, b.CompressionOptions) && a.Compression == b.Compression &&
		vDeepEqual(a.SchemeOptions, b.SchemeOptions) && a.Scheme == b.Scheme &&
		vDeepEqual(a.Authentication, b.Authentication) && vhReasonEq(a.Reason, b.Reason)
}

func HarnessC01Session() {
	cap := vParam("cap", 2)
	ses := &Session{Envelope: vhEnvelope("env", cap), State: vhState("state"), Reason: vhReason("reason", cap)}
	// option lists: absent, one entry each, two entries each (the three list fields are independent)
	switch vhChoice("lists", 3) {
	case 1:
		ses.EncryptionOptions = []SessionEncryption{SessionEncryption(nondetString("eo0", 4))}
		ses.CompressionOptions = []SessionCompression{SessionCompression(nondetString("co0", 4))}
		ses.SchemeOptions = []AuthenticationScheme{AuthenticationScheme(nondetString("so0", 4))}
	case 2:
		ses.EncryptionOptions = []SessionEncryption{SessionEncryptionNone, SessionEncryption(nondetString("eo1", 4))}
		ses.CompressionOptions = []SessionCompression{SessionCompression(nondetString("co0", 4)), SessionCompressionGzip}
		ses.SchemeOptions = []AuthenticationScheme{AuthenticationScheme(nondetString("so0", 4)), AuthenticationScheme(nondetString("so1", 4))}
	}
	ses.Encryption = SessionEncryption(nondetString("enc", 4))
	ses.Compression = SessionCompression(nondetString("comp", 4))
	switch a := vhChoice("auth", 7); a {
	case 5:
	case 6:
		// a scheme without authentication data
		ses.Scheme = AuthenticationScheme(nondetString("scheme.alone", 4))
	default:
		ses.SetAuthentication(vhAuthOf("auth", a, cap))
	}
	vReach("c01:session-built")
	b, err := json.Marshal(ses)
	vAssert(err == nil, "c01:session-encodes")
	if err != nil {
		return
	}
	var s2 Session
	err = json.Unmarshal(b, &s2)
	vAssert(err == nil, "c01:session-decodes-typed")
	if err == nil {
		vAssert(vhSessionEq(&s2, ses), "c01:session-typed-fields")
	}
	env, _, derr := vhWire(ses)
	vAssert(derr == nil, "c01:session-decodes-transport")
	if derr != nil {
		return
	}
	s3, ok := env.(*Session)
	vAssert(ok, "c01:session-kind-on-transport-path")
	if !ok {
		return
	}
	vReach("c01:session-roundtrip-done")
	vAssert(vhSessionEq(s3, ses), "c01:session-transport-fields")
}

// ---- text forms -----------------------------------------------------------------

func HarnessC01TextForms() {
	cap := vParam("tcap", 6)
	switch vhChoice("form", 6) {
	case 0:
		n := vhNode("n", cap, false)
		vReach("c01:text-node")
		vAssert(ParseNode(n.String()) == n, "c01:node-text-roundtrip")
		var n2 Node
		b, err := n.MarshalText()
		vAssert(err == nil, "c01:node-marshaltext")
		vAssert(n2.UnmarshalText(b) == nil, "c01:node-unmarshaltext")
		vAssert(n2 == n, "c01:node-marshaltext-roundtrip")
	case 1:
		i := Identity{vhAddrPart("i.name", cap, true), vhAddrPart("i.domain", cap, true)}
		vReach("c01:text-identity")
		vAssert(ParseIdentity(i.String()) == i, "c01:identity-text-roundtrip")
		var i2 Identity
		b, _ := i.MarshalText()
		vAssert(i2.UnmarshalText(b) == nil, "c01:identity-unmarshaltext")
		vAssert(i2 == i, "c01:identity-marshaltext-roundtrip")
	case 2:
		m := MediaType{nondetString("m.type", cap), nondetString("m.subtype", cap), nondetString("m.suffix", cap)}
		vAssume(!vStrHas(m.Type, '/'))
		vAssume(!vStrHas(m.Type, '+'))
		vAssume(!vStrHas(m.Subtype, '/'))
		vAssume(!vStrHas(m.Subtype, '+'))
		vAssume(!vStrHas(m.Suffix, '+'))
		vAssume(m != (MediaType{}))
		vReach("c01:text-mediatype")
		m2, err := ParseMediaType(m.String())
		vAssert(err == nil, "c01:mediatype-parses")
		vAssert(m2 == m, "c01:mediatype-text-roundtrip")
	case 3:
		s := vhState("state")
		vReach("c01:text-state")
		b, err := s.MarshalText()
		vAssert(err == nil, "c01:state-marshaltext")
		var s2 SessionState
		vAssert(s2.UnmarshalText(b) == nil, "c01:state-unmarshaltext")
		vAssert(s2 == s, "c01:state-text-roundtrip")
	case 4:
		ev := vhEvent("event")
		vReach("c01:text-event")
		b, err := ev.MarshalText()
		vAssert(err == nil, "c01:event-marshaltext")
		var e2 NotificationEvent
		vAssert(e2.UnmarshalText(b) == nil, "c01:event-unmarshaltext")
		vAssert(e2 == ev, "c01:event-text-roundtrip")
	default:
		m := vhMethod("method")
		vReach("c01:text-method")
		b, err := m.MarshalText()
		vAssert(err == nil, "c01:method-marshaltext")
		var m2 CommandMethod
		vAssert(m2.UnmarshalText(b) == nil, "c01:method-unmarshaltext")
		vAssert(m2 == m, "c01:method-text-roundtrip")
	}
}

// HarnessC01Request: request command round trip (URI treated as an opaque token).
func HarnessC01Request() {
	cap := vParam("cap", 2)
	vhRegisterCustom()
	cmd := &RequestCommand{Command: vhCommand(cap)}
	path := vConcat("/", nondetString("uri", cap))
	cmd.URI = &URI{url: &url.URL{Path: path}}
	vReach("c01:request-built")
	b, err := json.Marshal(cmd)
	vAssert(err == nil, "c01:request-encodes")
	if err != nil {
		return
	}
	var c2 RequestCommand
	err = json.Unmarshal(b, &c2)
	vAssert(err == nil, "c01:request-decodes-typed")
	if err == nil {
		vAssert(vhCommandEq(&c2.Command, &cmd.Command), "c01:request-typed-command-fields")
		vAssert(c2.URI != nil, "c01:request-typed-uri-present")
		if c2.URI != nil {
			vAssert(c2.URI.String() == path, "c01:request-typed-uri")
		}
	}
	env, _, derr := vhWire(cmd)
	vAssert(derr == nil, "c01:request-decodes-transport")
	if derr != nil {
		return
	}
	c3, ok := env.(*RequestCommand)
	vAssert(ok, "c01:request-kind-on-transport-path")
	if !ok {
		return
	}
	vReach("c01:request-roundtrip-done")
	vAssert(vhCommandEq(&c3.Command, &cmd.Command), "c01:request-transport-command-fields")
	vAssert(c3.URI != nil, "c01:request-transport-uri-present")
	if c3.URI != nil {
		vAssert(c3.URI.String() == path, "c01:request-transport-uri")
	}
}

// vhMediaPart: a media type / subtype text (no separators).
func vhMediaPart(tag string, cap int) string {
	s := nondetString(tag, cap)
	vAssume(!vStrHas(s, '/'))
	vAssume(!vStrHas(s, '+'))
	return s
}

func vhURL(p string) *url.URL { return &url.URL{Path: p} }
