package lime

import (
	"context"
	"time"
)

// ---- C08: client handshake against an arbitrary server --------------------------

type vhClientEnv struct {
	t          *vhTransport
	c          *ClientChannel
	rxAtSend   []*Session // latest received session when each envelope was sent
	authCalls  int
	selections int
}

// vhServerSession: an arbitrary session envelope a server may send.
func vhServerSession(tag string, cap int) *Session {
	s := &Session{}
	s.ID = nondetString(tag+".id", cap)
	s.State = vhState(tag + ".state")
	s.From = vhNode(tag+".from", cap, false)
	s.To = vhNode(tag+".to", cap, false)
	if vParam("emptyopts", 0) == 0 {
		s.EncryptionOptions = []SessionEncryption{SessionEncryption(nondetOneOf(tag+".eo", "none|tls|zz"))}
		s.CompressionOptions = []SessionCompression{SessionCompression(nondetOneOf(tag+".co", "none|gzip|zz"))}
		s.SchemeOptions = []AuthenticationScheme{AuthenticationScheme(nondetOneOf(tag+".so", "guest|plain|zz"))}
	}
	s.Encryption = SessionEncryption(nondetOneOf(tag+".enc", "none|tls||zz"))
	s.Compression = SessionCompression(nondetOneOf(tag+".comp", "none|gzip||zz"))
	if vParam("roundtrip", 1) == 1 {
		s.Authentication = &PlainAuthentication{Password: nondetString(tag+".rt", cap)}
		s.Scheme = AuthenticationSchemePlain
	}
	if vParam("reason", 0) == 1 {
		s.Reason = &Reason{Code: 1, Description: "r"}
	}
	return s
}

func vhServerRx(t *vhTransport) (envelope, error) {
	switch nondetChoice("rx.kind", 3) {
	case 0:
		return vhServerSession("rx", vParam("cap", 2)), nil
	case 1:
		return &Notification{Envelope: Envelope{ID: nondetString("rx.notid", 2)}, Event: NotificationEventReceived}, nil
	default:
		return nil, errVhStub
	}
}

type vhClientTransport struct {
	*vhTransport
	env *vhClientEnv
}

func (t *vhClientTransport) Send(ctx context.Context, e envelope) error {
	t.env.rxAtSend = append(t.env.rxAtSend, t.vhTransport.lastRx)
	return t.vhTransport.Send(ctx, e)
}

func vhNewClientEnv() *vhClientEnv {
	env := &vhClientEnv{}
	t := &vhTransport{depth: vParam("depth", 3), rx: vhServerRx, enc: SessionEncryptionNone, comp: SessionCompressionNone,
		supEnc: []SessionEncryption{SessionEncryptionNone, SessionEncryptionTLS}, supComp: []SessionCompression{SessionCompressionNone}}
	t.setFails = vParam("setfails", 0) == 1
	t.sendFails = vParam("sendfails", 0) == 1
	env.t = t
	env.c = NewClientChannel(&vhClientTransport{vhTransport: t, env: env}, 1)
	return env
}

func (env *vhClientEnv) compSel(options []SessionCompression) SessionCompression {
	env.selections++
	return SessionCompression(nondetOneOf("sel.comp", "none|gzip"))
}

func (env *vhClientEnv) encSel(options []SessionEncryption) SessionEncryption {
	env.selections++
	return SessionEncryption(nondetOneOf("sel.enc", "none|tls"))
}

func (env *vhClientEnv) authenticator(schemes []AuthenticationScheme, roundTrip Authentication) Authentication {
	env.authCalls++
	return &PlainAuthentication{Password: "pw"}
}

func (env *vhClientEnv) checks(ses *Session, err error) {
	t, c := env.t, env.c
	// truthful establishment
	if c.State() == SessionStateEstablished {
		vReach("c08:client-established")
		vAssert(t.lastRx != nil, "c08:established-needs-a-server-session")
		if t.lastRx != nil {
			vAssert(t.lastRx.State == SessionStateEstablished, "c08:established-only-on-servers-established")
			vAssert(c.ID() == t.lastRx.ID, "c08:adopts-session-id")
			vAssert(c.LocalNode() == t.lastRx.To, "c08:adopts-local-node")
			vAssert(c.RemoteNode() == t.lastRx.From, "c08:adopts-remote-node")
		}
	}
	if err == nil {
		vAssert(ses != nil, "c08:returns-session-or-error")
		if ses != nil && ses.State == SessionStateEstablished {
			vAssert(c.State() == SessionStateEstablished, "c08:returned-established-session-means-established-channel")
		}
	}
	// envelopes sent by the client
	for i := 0; i < len(t.sent); i++ {
		s, ok := t.sent[i].(*Session)
		vAssert(ok, "c08:only-session-envelopes-during-handshake")
		if !ok {
			continue
		}
		rx := env.rxAtSend[i]
		if i == 0 {
			vAssert(s.State == SessionStateNew, "c08:first-envelope-is-new")
			vAssert(s.Authentication == nil, "c08:no-credentials-in-new")
			continue
		}
		vAssert(rx != nil, "c08:later-envelopes-answer-a-server-session")
		if rx == nil {
			continue
		}
		vAssert(s.ID == rx.ID, "c08:echoes-latest-server-session-id")
		if s.Authentication != nil {
			vAssert(rx.State == SessionStateAuthenticating, "c08:credentials-only-answer-an-authentication-request")
		}
	}
	// C09, client side: a confirmation is applied before the client reads or sends anything else
	if len(t.rxLog) >= 2 && t.rxLog[0].State == SessionStateNegotiating && t.rxLog[1].State == SessionStateNegotiating &&
		len(t.encAtRecv) >= 3 && !t.setFails {
		conf := t.rxLog[1]
		vReach("c09:client-got-confirmation")
		if conf.Encryption != "" {
			vAssert(t.encAtRecv[2] == conf.Encryption, "c09:client-applies-confirmed-encryption-before-next-receive")
		}
		if conf.Compression != "" {
			vAssert(t.compAtRecv[2] == conf.Compression, "c09:client-applies-confirmed-compression-before-next-receive")
		}
		for i := 0; i < len(t.sent); i++ {
			if s, ok := t.sent[i].(*Session); ok && s.Authentication != nil && conf.Encryption != "" {
				vAssert(t.encAtSend[i] == conf.Encryption, "c09:client-credentials-travel-under-confirmed-encryption")
			}
		}
	}
	// a confirmed option that cannot be applied ends the handshake: nothing more is said on the half-switched connection
	if t.setFailed {
		vReach("c09:client-option-switch-failed")
		vAssert(err != nil, "c09:client-failed-option-switch-ends-the-handshake")
		for i := t.sentAtFail; i < len(t.sent); i++ {
			if s, ok := t.sent[i].(*Session); ok {
				vAssert(s.Authentication == nil, "c09:client-sends-no-credentials-after-a-failed-option-switch")
			}
		}
	}
	// finished / failed from the server closes the connection
	if t.lastRx != nil && t.rxErrs == 0 && t.rxAliens == 0 {
		if t.lastRx.State == SessionStateFinished || t.lastRx.State == SessionStateFailed {
			vReach("c08:server-ended-session")
			vAssert(t.closed, "c08:closes-connection-on-finished-or-failed")
		}
	}
}

func HarnessC08Client() {
	env := vhNewClientEnv()
	// a caller-supplied deadline: a server that stops talking ends the handshake with the context's error
	ctx, cancel := context.WithTimeout(context.Background(), 300*time.Millisecond)
	defer cancel()
	ses, err := env.c.EstablishSession(ctx, env.compSel, env.encSel, Identity{"cl", "dom"}, env.authenticator, "i")
	vReach("c08:handshake-returned")
	env.checks(ses, err)
}

// HarnessC08Build: the high-level client hands out a channel only when it is established.
func HarnessC08Build() {
	env := vhNewClientEnv()
	cfg := &ClientConfig{Node: Node{Identity{"cl", "dom"}, "i"}, ChannelBufferSize: 1,
		NewTransport: func(ctx context.Context) (Transport, error) {
			return &vhClientTransport{vhTransport: env.t, env: env}, nil
		},
		CompSelector:    env.compSel,
		EncryptSelector: env.encSel,
		Authenticator:   env.authenticator,
	}
	cl := &Client{config: cfg, mux: &EnvelopeMux{}, lock: make(chan struct{}, 1)}
	ctx, cancel := context.WithTimeout(context.Background(), 300*time.Millisecond)
	defer cancel()
	ch, err := cl.buildChannel(ctx)
	vReach("c08:build-returned")
	if err == nil {
		vAssert(ch != nil, "c08:build-returns-channel-or-error")
		if ch != nil {
			vAssert(ch.State() == SessionStateEstablished, "c08:build-returns-only-established-channels")
			vAssert(env.t.lastRx != nil && env.t.lastRx.State == SessionStateEstablished, "c08:build-established-on-servers-word")
		}
	}
}

// ---- C14 / C18(1): serving one connection ------------------------------------------

type vhServeEnv struct {
	*vhServerEnv
	srv         *Server
	established []string
	finished    []string
	handled     int
	estBefore   bool
	hFailed     bool
}

func vhNewServeEnv() *vhServeEnv {
	se := &vhServeEnv{vhServerEnv: vhNewServerEnv()}
	cfg := &ServerConfig{Node: se.node, CompOpts: se.compOpts, EncryptOpts: se.encOpts, SchemeOpts: se.schemes, ChannelBufferSize: 1,
		Authenticate: se.authenticate, Register: se.register,
		Established: func(id string, c *ServerChannel) {
			se.established = append(se.established, id)
			se.estBefore = se.handled == 0
		},
		Finished: func(id string) { se.finished = append(se.finished, id) },
	}
	mux := &EnvelopeMux{}
	mux.MessageHandlerFunc(nil, func(ctx context.Context, msg *Message, s Sender) error {
		se.handled++
		if nondetBool("handler.fails") {
			se.hFailed = true
			return errVhStub
		}
		return nil
	})
	se.srv = &Server{config: cfg, mux: mux}
	return se
}

// after the handshake the scripted peer may send data envelopes, then the stream ends
func vhServedRx(t *vhTransport) (envelope, error) {
	if t.lastRx != nil && t.step > vParam("hsdepth", 3) {
		return nil, errVhStub
	}
	return vhClientRx(t)
}

func HarnessC14Serve() {
	se := vhNewServeEnv()
	t, c := se.t, se.c
	se.srv.handleChannel(context.Background(), c)
	vQuiesce()
	vReach("c14:serve-returned")
	reached := vhCount(t.calls, "send:established") > 0
	if !reached {
		vReach("c14:never-established")
		vAssert(t.closed || t.down, "c14:failed-handshake-closes-the-connection")
		vAssert(len(se.established) == 0, "c14:no-established-callback-for-failed-handshake")
		vAssert(len(se.finished) == 0, "c14:no-finished-callback-for-failed-handshake")
	} else {
		vReach("c18:served-established-session")
		vAssert(len(se.established) == 1, "c18:established-callback-exactly-once")
		vAssert(len(se.finished) == 1, "c18:finished-callback-exactly-once")
		if len(se.established) == 1 && len(se.finished) == 1 {
			vAssert(se.established[0] == vhSID && se.finished[0] == vhSID, "c18:callbacks-carry-the-session-id")
		}
		vAssert(se.estBefore, "c18:established-callback-before-any-handler")
		vAssert(t.closed || t.down, "c14:served-connection-is-closed-at-the-end")
		if se.hFailed {
			vReach("c20:handler-failed-while-serving")
			// (unless the client vanished in the meantime: then there is nobody to tell)
			vAssert(vhCount(t.calls, "send:finished")+t.txFailFin == 1 || t.down || t.rxErrs > 0, "c20:handler-error-finishes-the-session")
		}
	}
	vAssert(vThreadsLive() <= 0, "c14:no-goroutine-left-serving-the-connection")
}

// ---- C03: the authentication callback the ServerBuilder composes ---------------------------------

// HarnessC03BuildAuth: with the authenticators the builder was given (each present or absent), which
// presented credentials can ever yield a known role?
func HarnessC03BuildAuth() {
	calls := 0
	var plain PlainAuthenticator
	var key KeyAuthenticator
	var ext ExternalAuthenticator
	role := DomainRole(nondetOneOf("cb.role", "member|authority|rootAuthority|unknown|"))
	cbErr := nondetBool("cb.fails")
	result := func() (*AuthenticationResult, error) {
		calls++
		if cbErr {
			return nil, errVhStub
		}
		return &AuthenticationResult{Role: role}, nil
	}
	if nondetBool("plain.configured") {
		plain = func(ctx context.Context, id Identity, pw string) (*AuthenticationResult, error) { return result() }
	}
	if nondetBool("key.configured") {
		key = func(ctx context.Context, id Identity, k string) (*AuthenticationResult, error) { return result() }
	}
	if nondetBool("external.configured") {
		ext = func(ctx context.Context, id Identity, tok, iss string) (*AuthenticationResult, error) {
			return result()
		}
	}
	auth := buildAuthenticate(plain, key, ext)
	id := Identity{nondetString("id.name", 3), nondetString("id.domain", 3)}
	if nondetBool("id.uuid-name") {
		id.Name = "123e4567-e89b-42d3-a456-426614174000"
	}
	scheme := vhChoice("scheme", 6)
	var presented Authentication
	switch scheme {
	case 0:
		presented = &GuestAuthentication{}
	case 1:
		p := &PlainAuthentication{}
		p.SetPasswordAsBase64("pw")
		if nondetBool("cred.malformed") {
			p.Password = "%%%"
		}
		presented = p
	case 2:
		k := &KeyAuthentication{}
		k.SetKeyAsBase64("key")
		if nondetBool("cred.malformed") {
			k.Key = "%%%"
		}
		presented = k
	case 3:
		presented = &TransportAuthentication{}
	case 4:
		presented = &ExternalAuthentication{Token: nondetString("cred.tok", 2), Issuer: nondetString("cred.iss", 2)}
	}
	res, err := auth(context.Background(), id, presented)
	vReach("c03:builder-authenticate-returned")
	granted := err == nil && res != nil && res.Role != "" && res.Role != DomainRoleUnknown
	if err == nil {
		vAssert(res != nil, "c03:builder-result-or-error")
	}
	if !granted {
		return
	}
	vReach("c03:builder-grants")
	switch presented.(type) {
	case *GuestAuthentication:
		vAssert(id.Name == "123e4567-e89b-42d3-a456-426614174000", "c03:guest-granted-only-with-uuid-name")
	case *PlainAuthentication:
		vAssert(plain != nil && calls == 1 && !cbErr, "c03:plain-granted-only-by-the-configured-authenticator")
	case *KeyAuthentication:
		vAssert(key != nil && calls == 1 && !cbErr, "c03:key-granted-only-by-the-configured-authenticator")
	case *ExternalAuthentication:
		vAssert(ext != nil && calls == 1 && !cbErr, "c03:external-granted-only-by-the-configured-authenticator")
	default:
		vAssert(false, "c03:transport-or-missing-credentials-never-granted")
	}
	vAssert(role != "" && role != DomainRoleUnknown || calls == 0, "c03:granted-role-is-the-authenticators")
}
