package lime

import (
	"context"
	"time"
)

// ---- C06: data envelopes flow only while the session is established ------------------

func vhStreamsEmpty(c *channel) bool {
	return len(c.inMsgChan) == 0 && len(c.inNotChan) == 0 && len(c.inReqCmdChan) == 0 && len(c.inRespCmdChan) == 0
}

// HarnessC06Send: from a channel in an arbitrary state, every data operation either is refused
// without touching the transport (state != established or transport down) or writes exactly the
// given envelope once (established).
func HarnessC06Send() {
	t := &vhTransport{depth: 0, enc: SessionEncryptionNone, comp: SessionCompressionNone}
	t.closed = nondetBool("transport.down")
	c := newChannel(t, 1)
	c.client = nondetBool("client")
	c.state = vhState("state")
	c.sessionID = vhSID
	ctx, cancel := context.WithTimeout(context.Background(), 200*time.Millisecond)
	defer cancel()
	var err error
	var e envelope
	op := vhChoice("op", 6)
	switch op {
	case 0:
		m := vhEnvelopeOfKind(0, "m").(*Message)
		e = m
		err = c.SendMessage(ctx, m)
	case 1:
		n := vhEnvelopeOfKind(1, "n").(*Notification)
		e = n
		err = c.SendNotification(ctx, n)
	case 2:
		q := vhEnvelopeOfKind(2, "q").(*RequestCommand)
		e = q
		err = c.SendRequestCommand(ctx, q)
	case 3:
		r := vhEnvelopeOfKind(3, "r").(*ResponseCommand)
		e = r
		err = c.SendResponseCommand(ctx, r)
	case 4:
		q := vhEnvelopeOfKind(2, "q").(*RequestCommand)
		e = q
		_, err = c.ProcessCommand(ctx, q)
	default:
		mux := &EnvelopeMux{}
		err = mux.listen(ctx, c)
	}
	vReach("c06:operation-returned")
	if c.state != SessionStateEstablished || t.closed {
		vReach("c06:not-established")
		vAssert(err != nil, "c06:operation-refused-outside-established")
		vAssert(len(t.sent) == 0, "c06:nothing-written-outside-established")
		vAssert(vhCount(t.calls, "recv") == 0, "c06:nothing-read-outside-established")
		vAssert(len(c.processingCmds) == 0, "c06:no-pending-command-left-behind")
	} else if op < 5 {
		vReach("c06:established")
		vAssert(len(t.sent) == 1, "c06:established-send-writes-exactly-once")
		if len(t.sent) == 1 {
			vAssert(t.sent[0] == e, "c06:established-send-writes-the-given-envelope")
		}
		if op < 4 {
			vAssert(err == nil, "c06:established-send-succeeds")
		}
	}
}

// HarnessC06Inject: a data envelope injected into either role's handshake aborts it and reaches no inbound stream.
func HarnessC06Inject() {
	ctx, cancel := context.WithTimeout(context.Background(), 200*time.Millisecond)
	defer cancel()
	var c *channel
	var t *vhTransport
	var err error
	if vhChoice("role", 2) == 0 {
		env := vhNewServerEnv()
		t = env.t
		c = env.c.channel
		err = env.c.EstablishSession(ctx, env.compOpts, env.encOpts, env.schemes, env.authenticate, env.register)
	} else {
		env := vhNewClientEnv()
		t = env.t
		c = env.c.channel
		_, err = env.c.EstablishSession(ctx, env.compSel, env.encSel, Identity{"cl", "dom"}, env.authenticator, "i")
	}
	vReach("c06:handshake-returned")
	// did the channel pass through the established state? (server: it announced it; client: the server said so)
	established := vhCount(t.calls, "send:established") > 0
	if c.client {
		for i := 0; i < len(t.rxLog); i++ {
			if t.rxLog[i].State == SessionStateEstablished {
				established = true
			}
		}
	}
	if t.rxAliens > 0 && !established {
		vReach("c06:data-envelope-before-establishment")
		vAssert(err != nil, "c06:injected-data-envelope-aborts-the-handshake")
		vAssert(vhStreamsEmpty(c), "c06:injected-data-envelope-reaches-no-stream")
		vAssert(c.state != SessionStateEstablished, "c06:no-establishment-after-injected-data")
	}
	// during the handshake only session envelopes are written
	if !established {
		for i := 0; i < len(t.sent); i++ {
			_, isSes := t.sent[i].(*Session)
			vAssert(isSes, "c06:only-session-envelopes-written-before-establishment")
		}
	}
	// the receiver goroutine (only producer of the streams) exists only once established
	if !established {
		vAssert(c.cancel == nil, "c06:receiver-not-started-before-establishment")
	}
}

// HarnessC06AfterEnd: once the server side ended the session (finish or fail, whether or not the terminal
// envelope could be written), and once a client saw the server end it, no data envelope is written any more.
func HarnessC06AfterEnd() {
	ctx, cancel := context.WithTimeout(context.Background(), 200*time.Millisecond)
	defer cancel()
	var c *channel
	var t *vhTransport
	switch vhChoice("end", 5) {
	case 0, 1:
		t = &vhTransport{depth: 0, enc: SessionEncryptionNone, comp: SessionCompressionNone, sendFails: true}
		sc := NewServerChannel(t, 1, Node{Identity{"postmaster", "srv"}, "s1"}, vhSID)
		sc.state = SessionStateEstablished
		c = sc.channel
		if vParam("end", 0) == 0 {
			_ = sc.FinishSession(ctx)
		} else {
			_ = sc.FailSession(ctx, &Reason{Code: 1, Description: "x"})
		}
	default:
		// a client whose server ends the session while the application is not finishing
		terminal := SessionStateFinished
		if vParam("end", 2) == 3 {
			terminal = SessionStateFailed
		}
		if vParam("end", 2) == 4 {
			// a session envelope that moves backwards also ends the session
			terminal = SessionStateAuthenticating
		}
		t = &vhTransport{depth: 1, enc: SessionEncryptionNone, comp: SessionCompressionNone}
		t.rx = func(*vhTransport) (envelope, error) {
			return &Session{Envelope: Envelope{ID: vhSID}, State: terminal}, nil
		}
		cc := NewClientChannel(t, vParam("buf", 0))
		cc.sessionID = vhSID
		cc.setState(SessionStateEstablished)
		c = cc.channel
		vQuiesce()
	}
	vReach("c06:session-ended")
	before := len(t.sent)
	for k := 0; k < 4; k++ {
		err := vhSendKind(c, ctx, vhEnvelopeOfKind(k, "late"))
		vAssert(err != nil, "c06:send-after-the-end-is-refused")
	}
	data := 0
	for i := before; i < len(t.sent); i++ {
		if _, isSes := t.sent[i].(*Session); !isSes {
			data++
		}
	}
	vAssert(data == 0, "c06:no-data-envelope-written-after-the-end")
}
