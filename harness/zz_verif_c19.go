package lime

import (
	"context"
	"errors"
	"io"
	"time"
)

// ---- C19: the client recovers from any unrequested loss of its session -----------------------

const (
	vhFaultNone = iota
	vhFaultFinished
	vhFaultFailed
	vhFaultEOF         // the connection drops and the transport notices (Connected() turns false)
	vhFaultUndecodable // inbound data cannot be decoded: Receive fails, the connection itself stays up
	vhFaultBurstDrop   // a burst of notifications larger than the buffers, then the connection drops
	vhFaultRegress     // the server sends a session envelope with an earlier state
)

// vhCoopServer: a scripted transport whose peer is a well-behaved server that, after establishing the
// session and delivering `inbound` messages, injects one fault.
type vhCoopServer struct {
	vhTransport
	id        string
	pos       int
	fault     int
	inbound   []*Message
	delivered int
	silent    bool
	faulted   bool
	finished  bool
	wake      chan struct{}
	badID     bool // the terminal session envelope carries no session id
	burst     int
}

func (t *vhCoopServer) Receive(ctx context.Context) (envelope, error) {
	if t.closed || t.down {
		return nil, errVhStub
	}
	if t.silent {
		<-ctx.Done()
		return nil, ctx.Err()
	}
	p := t.pos
	t.pos++
	me := Node{Identity{"cl", "dom"}, "i"}
	srvNode := Node{Identity{"postmaster", "srv"}, "s1"}
	switch {
	case p == 0:
		return &Session{Envelope: Envelope{ID: t.id, From: srvNode}, State: SessionStateAuthenticating,
			SchemeOptions: []AuthenticationScheme{AuthenticationSchemeGuest}}, nil
	case p == 1:
		return &Session{Envelope: Envelope{ID: t.id, From: srvNode, To: me}, State: SessionStateEstablished}, nil
	case p < 2+len(t.inbound):
		t.delivered++
		return t.inbound[p-2], nil
	}
	if t.fault == vhFaultBurstDrop && t.burst < 3 {
		t.burst++
		if t.burst == 3 {
			t.faulted = true
		}
		return &Notification{Envelope: Envelope{ID: "n"}, Event: NotificationEventReceived}, nil
	}
	if !t.faulted && t.fault != vhFaultNone {
		t.faulted = true
		fid := t.id
		if t.badID {
			fid = ""
		}
		switch t.fault {
		case vhFaultFinished:
			return &Session{Envelope: Envelope{ID: fid, From: srvNode, To: me}, State: SessionStateFinished}, nil
		case vhFaultFailed:
			return &Session{Envelope: Envelope{ID: fid, From: srvNode, To: me}, State: SessionStateFailed, Reason: &Reason{Code: 1, Description: "x"}}, nil
		case vhFaultRegress:
			return &Session{Envelope: Envelope{ID: fid, From: srvNode, To: me}, State: SessionStateAuthenticating}, nil
		case vhFaultEOF:
			t.down = true
			return nil, io.EOF
		case vhFaultUndecodable:
			return nil, errors.New("invalid character 'x' looking for beginning of value")
		}
	}
	// a well-behaved server answers the client's finishing request
	if vParam("answerfinish", 1) == 1 && !t.finished {
		if last := vhLastSent(&t.vhTransport); last != nil && last.State == SessionStateFinishing {
			t.finished = true
			return &Session{Envelope: Envelope{ID: t.id, From: srvNode, To: me}, State: SessionStateFinished}, nil
		}
	}
	select {
	case <-ctx.Done():
		return nil, ctx.Err()
	case <-t.wake:
		return t.Receive(ctx)
	}
}

func (t *vhCoopServer) Send(ctx context.Context, e envelope) error {
	err := t.vhTransport.Send(ctx, e)
	if s, ok := e.(*Session); ok && s.State == SessionStateFinishing && t.wake != nil {
		// the request reaches the server, which then answers
		select {
		case t.wake <- struct{}{}:
		default:
		}
	}
	return err
}

func HarnessC19Recover() {
	fault := vhChoice("fault", 6) + 1
	var handled []*Message
	gate := make(chan struct{})
	parked := 0
	var ts []*vhCoopServer
	mk := func(i int) *vhCoopServer {
		t := &vhCoopServer{id: []string{"s1", "s2", "s3", "s4"}[i], wake: make(chan struct{}, 1)}
		t.enc, t.comp = SessionEncryptionNone, SessionCompressionNone
		t.supEnc = []SessionEncryption{SessionEncryptionNone}
		t.supComp = []SessionCompression{SessionCompressionNone}
		switch i {
		case 0:
			t.fault = fault
			t.badID = vParam("badid", 0) == 1
			if vParam("inbound1", 0) == 1 {
				t.inbound = []*Message{{Envelope: Envelope{ID: "m1"}, Type: MediaTypeTextPlain(), Content: TextDocument("a")}}
			}
		case 1:
			t.inbound = []*Message{{Envelope: Envelope{ID: "m2"}, Type: MediaTypeTextPlain(), Content: TextDocument("b")}}
		default:
			t.silent = true
		}
		return t
	}
	cfg := &ClientConfig{Node: Node{Identity{"cl", "dom"}, "i"}, ChannelBufferSize: 1,
		NewTransport: func(ctx context.Context) (Transport, error) {
			if len(ts) >= 4 {
				return nil, errVhStub
			}
			t := mk(len(ts))
			ts = append(ts, t)
			return t, nil
		},
		CompSelector:    NoneCompressionSelector,
		EncryptSelector: NoneEncryptionSelector,
		Authenticator:   GuestAuthenticator,
	}
	mux := &EnvelopeMux{}
	mux.MessageHandlerFunc(nil, func(ctx context.Context, m *Message, s Sender) error {
		handled = append(handled, m)
		return nil
	})
	mux.NotificationHandlerFunc(nil, func(ctx context.Context, n *Notification) error {
		// a slow handler: it is parked while the burst arrives
		parked++
		<-gate
		return nil
	})
	cl := NewClient(cfg, mux)
	if vParam("early", 0) == 1 {
		// an operation issued while the first session is still being established: it waits for that session
		go func() {
			c0, stop := context.WithTimeout(context.Background(), 300*time.Millisecond)
			defer stop()
			_ = cl.SendMessage(c0, &Message{Envelope: Envelope{ID: "early"}, Type: MediaTypeTextPlain(), Content: TextDocument("e")})
		}()
	}
	vQuiesce()
	if fault == vhFaultBurstDrop {
		// the connection drops while the receiver is busy with the burst
		ts[0].down = true
		close(gate)
		vQuiesce()
	}
	vReach("c19:first-session-and-fault-settled")
	vAssert(len(ts) >= 1 && ts[0].faulted, "c19:fault-was-injected")
	// the session was lost without the application asking for it: an operation gets a fresh session
	out := &Message{Envelope: Envelope{ID: "out"}, Type: MediaTypeTextPlain(), Content: TextDocument("o")}
	ctx, cancel := context.WithTimeout(context.Background(), 300*time.Millisecond)
	err := cl.SendMessage(ctx, out)
	cancel()
	vQuiesce()
	vReach("c19:send-after-fault-returned")
	vAssert(vSpins() == 0, "c19:listener-does-not-busy-loop")
	vAssert(len(ts) >= 2, "c19:fresh-session-established-after-the-loss")
	// where did the outgoing message go?
	where := -1
	for i := 0; i < len(ts); i++ {
		for k := 0; k < len(ts[i].sent); k++ {
			if ts[i].sent[k] == envelope(out) {
				where = i
			}
		}
	}
	if err == nil {
		vAssert(where >= 0, "c19:successful-send-was-written")
		if where >= 0 {
			vAssert(!ts[where].faulted, "c19:send-succeeds-only-on-a-live-session")
		}
	}
	vAssert(err == nil, "c19:send-after-recovery-succeeds")
	// inbound envelopes of the new session reach the registered handler
	if len(ts) >= 2 {
		vAssert(ts[1].delivered == 1, "c19:listener-reads-from-the-new-session")
		got := false
		for k := 0; k < len(handled); k++ {
			if handled[k] == ts[1].inbound[0] {
				got = true
			}
		}
		vAssert(got, "c19:inbound-envelope-on-new-session-reaches-the-handler")
		vAssert(ts[0].closed || ts[0].down, "c19:lost-sessions-connection-is-released")
	}
	_ = cl.Close()
	vQuiesce()
	vAssert(vThreadsLive() <= 0, "c19:close-leaves-no-goroutine-behind")
}

// HarnessC19InProcSend: over the in-process transport, a send after the peer has gone away fails (it
// never "succeeds" into the dropped session), whether or not envelopes queued by the peer are still
// unread; what the peer queued before going away is still delivered, then the receive side reports
// the loss.
func HarnessC19InProcSend() {
	cl, sv := newInProcessTransportPair("a", 2)
	ctx, cancel := context.WithTimeout(context.Background(), 100*time.Millisecond)
	defer cancel()
	queued := nondetRange("unread", 0, 2)
	var sent []envelope
	for i := 0; i < queued; i++ {
		e := vhEnvelopeOfKind(0, []string{"q0", "q1"}[i])
		vAssume(sv.Send(ctx, e) == nil)
		sent = append(sent, e)
	}
	if nondetBool("server-closes") {
		_ = sv.Close()
	} else {
		_ = cl.Close()
	}
	vReach("c19:inproc-peer-gone")
	err := cl.Send(ctx, vhEnvelopeOfKind(0, "late"))
	vAssert(err != nil, "c19:inproc-send-after-the-loss-fails")
	vAssert(len(sv.envChan) == 0, "c19:inproc-nothing-is-queued-for-the-dropped-session")
	for i := 0; i < queued; i++ {
		e, rerr := cl.Receive(ctx)
		vAssert(rerr == nil && e == sent[i], "c19:inproc-queued-envelopes-are-still-delivered")
	}
	_, rerr := cl.Receive(ctx)
	vAssert(rerr != nil, "c19:inproc-receive-reports-the-loss")
	vAssert(!cl.Connected(), "c19:inproc-transport-reports-disconnected-once-drained")
}
