package lime

import (
	"context"
	"time"
)

// ---- C13: sessions end cleanly in both directions and release what waits on them ------------

func vhStreamsClosed(c *channel) bool {
	// a closed stream, once drained of what was still buffered, yields immediately with ok == false
	for i := 0; i < 4; i++ {
		select {
		case _, ok := <-c.inMsgChan:
			if ok {
				continue
			}
		default:
			return false
		}
		break
	}
	for i := 0; i < 4; i++ {
		select {
		case _, ok := <-c.inNotChan:
			if ok {
				continue
			}
		default:
			return false
		}
		break
	}
	for i := 0; i < 4; i++ {
		select {
		case _, ok := <-c.inReqCmdChan:
			if ok {
				continue
			}
		default:
			return false
		}
		break
	}
	for i := 0; i < 4; i++ {
		select {
		case _, ok := <-c.inRespCmdChan:
			if ok {
				continue
			}
		default:
			return false
		}
		break
	}
	select {
	case <-c.rcvDone:
	default:
		return false
	}
	return true
}

// HarnessC13Teardown: both roles are the real code, joined by the real in-process transport and
// established through the real handshake; then one party ends the session.
func HarnessC13Teardown() {
	buf := vParam("buf", 1)
	clT, srvT := newInProcessTransportPair("c13", vParam("tbuf", 1))
	var estChan *ServerChannel
	finished := 0
	cfg := &ServerConfig{Node: Node{Identity{"postmaster", "srv"}, "s1"}, CompOpts: []SessionCompression{SessionCompressionNone},
		EncryptOpts: []SessionEncryption{SessionEncryptionNone}, SchemeOpts: []AuthenticationScheme{AuthenticationSchemeGuest},
		ChannelBufferSize: buf,
		Authenticate: func(ctx context.Context, id Identity, a Authentication) (*AuthenticationResult, error) {
			return MemberAuthenticationResult(), nil
		},
		Register:    func(ctx context.Context, n Node, c *ServerChannel) (Node, error) { return n, nil },
		Established: func(id string, c *ServerChannel) { estChan = c },
		Finished:    func(id string) { finished++ },
	}
	srvGot := 0
	srvMux := &EnvelopeMux{}
	srvMux.MessageHandlerFunc(nil, func(ctx context.Context, m *Message, s Sender) error { srvGot++; return nil })
	srv := &Server{config: cfg, mux: srvMux}
	sc := NewServerChannel(srvT, buf, cfg.Node, vhSID)
	srvCtx, srvCancel := context.WithCancel(context.Background())
	served := false
	go func() {
		srv.handleChannel(srvCtx, sc)
		served = true
	}()
	cc := NewClientChannel(clT, buf)
	hctx, hcancel := context.WithTimeout(context.Background(), 5*time.Second)
	ses, err := cc.EstablishSession(hctx, NoneCompressionSelector, NoneEncryptionSelector, Identity{"cl", "dom"}, GuestAuthenticator, "i")
	hcancel()
	vAssert(err == nil && ses != nil && ses.State == SessionStateEstablished, "c13:real-handshake-establishes")
	if err != nil || ses == nil || ses.State != SessionStateEstablished {
		return
	}
	vQuiesce()
	vAssert(estChan == sc, "c13:server-side-established")
	clGot := 0
	clMux := &EnvelopeMux{}
	clMux.MessageHandlerFunc(nil, func(ctx context.Context, m *Message, s Sender) error { clGot++; return nil })
	clCtx, clCancel := context.WithCancel(context.Background())
	clListenDone := false
	go func() {
		_ = clMux.ListenClient(clCtx, cc)
		clListenDone = true
	}()
	// traffic in flight in either direction at the moment the end is requested
	sctx, scancel := context.WithTimeout(context.Background(), 5*time.Second)
	defer scancel()
	if vParam("flight", 1) == 1 {
		if nondetBool("client.data-in-flight") {
			_ = cc.SendMessage(sctx, vhEnvelopeOfKind(0, "c2s").(*Message))
		}
		if nondetBool("server.data-in-flight") {
			_ = sc.SendMessage(sctx, vhEnvelopeOfKind(0, "s2c").(*Message))
		}
	}
	who := vhChoice("who", 3)
	if who != 0 && vParam("hangup", 0) == 1 {
		// like the high-level client: as soon as the session is seen to be over, the connection is dropped
		go func() {
			<-cc.RcvDone()
			_ = cc.Close()
		}()
	}
	var endErr error
	vPreemptOn()
	if vParam("Pgate", 0) == 1 {
		// set-up was run under one schedule; the teardown is explored under all of them
		vSchedPolicy(1)
	}
	switch who {
	case 0:
		fs, e := cc.FinishSession(sctx)
		endErr = e
		if e == nil {
			vAssert(fs != nil && fs.State == SessionStateFinished, "c13:client-finish-is-answered-with-finished")
		}
	case 1:
		endErr = sc.FinishSession(sctx)
	default:
		endErr = sc.FailSession(sctx, &Reason{Code: 1, Description: "stop"})
	}
	vSettle()
	vReach("c13:end-settled")
	vTrace(vConcat("client-state:", string(cc.State())))
	vTrace(vConcat("server-state:", string(sc.State())))
	if endErr != nil {
		vTrace(vConcat("end-error:", endErr.Error()))
	}
	vAssert(endErr == nil, "c13:terminating-call-succeeds")
	switch who {
	case 0:
		vAssert(cc.State() == SessionStateFinished, "c13:client-reaches-finished")
		vAssert(sc.State() == SessionStateFinished, "c13:server-reaches-finished")
	case 1:
		vAssert(sc.State() == SessionStateFinished, "c13:server-reaches-finished")
		vAssert(cc.State() == SessionStateFinished, "c13:client-observes-finished")
	default:
		vAssert(sc.State() == SessionStateFailed, "c13:server-reaches-failed")
		vAssert(cc.State() == SessionStateFailed, "c13:client-observes-failed")
	}
	// the observing side closes its channel (the high-level client does this on its own)
	_ = cc.Close()
	_ = sc.Close()
	vSettle()
	vAssert(vhStreamsClosed(cc.channel), "c13:client-streams-and-receiver-done-closed")
	vAssert(vhStreamsClosed(sc.channel), "c13:server-streams-and-receiver-done-closed")
	vAssert(clT.isClosed(), "c13:client-connection-closed")
	vAssert(srvT.isClosed(), "c13:server-connection-closed")
	vAssert(clListenDone, "c13:client-dispatch-loop-returned")
	vAssert(served, "c13:server-serving-goroutine-returned")
	vAssert(finished == 1, "c13:finished-callback-fired-once")
	clCancel()
	srvCancel()
	vSettle()
	vAssert(vThreadsLive() <= 0, "c13:no-goroutine-left-behind")
}

// HarnessC13Parked: the terminating call must get through even when the local receiver goroutine is
// parked handing an inbound envelope (of any kind) to a stream nobody is reading at that moment.
func HarnessC13Parked() {
	buf := vParam("buf", 0)
	clT, srvT := newInProcessTransportPair("c13p", 1)
	cc := NewClientChannel(clT, buf)
	sc := NewServerChannel(srvT, buf, Node{Identity{"postmaster", "srv"}, "s1"}, vhSID)
	cc.sessionID = vhSID
	cc.state = SessionStateEstablished
	sc.state = SessionStateEstablished
	cc.startRcv.Do(cc.startReceiver)
	sc.startRcv.Do(sc.startReceiver)
	ctx, cancel := context.WithTimeout(context.Background(), 5*time.Second)
	defer cancel()
	// the peer's envelope is in flight; the local application is not reading that stream right now
	e := vhEnvelopeOfKind(nondetChoice("kind", 4), "inflight")
	who := vhChoice("who", 4)
	if who == 0 {
		_ = vhSendKind(sc.channel, ctx, e) // towards the client, which is about to finish
	} else {
		_ = vhSendKind(cc.channel, ctx, e) // towards the server, which is about to end the session
	}
	vQuiesce()
	returned := false
	go func() {
		switch who {
		case 0:
			_, _ = cc.FinishSession(ctx)
		case 1:
			_ = sc.FinishSession(ctx)
		case 2:
			_ = sc.FailSession(ctx, &Reason{Code: 1, Description: "stop"})
		default:
			_ = sc.Close()
		}
		returned = true
	}()
	if who == 0 {
		// a well-behaved server answers the finishing request
		go func() {
			if s, err := sc.receiveSession(ctx); err == nil && s.State == SessionStateFinishing {
				_ = sc.FinishSession(ctx)
			}
		}()
	}
	vSettle()
	vReach("c13:parked-settled")
	vAssert(returned, "c13:terminating-call-returns-with-receiver-parked")
	_ = cc.Close()
	_ = sc.Close()
	vSettle()
	vAssert(clT.isClosed(), "c13:parked-client-connection-closed")
	vAssert(srvT.isClosed(), "c13:parked-server-connection-closed")
	vAssert(vThreadsLive() <= 0, "c13:parked-no-goroutine-left-behind")
}

// HarnessC13HangUp: the server ends the session and the client hangs up the moment it has read the
// server's last word - the server's terminating call and its receiver goroutine race.
func HarnessC13HangUp() {
	clT, srvT := newInProcessTransportPair("c13h", vParam("tbuf", 1))
	sc := NewServerChannel(srvT, 1, Node{Identity{"postmaster", "srv"}, "s1"}, vhSID)
	sc.state = SessionStateEstablished
	sc.remoteNode = Node{Identity{"cl", "dom"}, "i"}
	sc.startRcv.Do(sc.startReceiver)
	ctx, cancel := context.WithTimeout(context.Background(), 5*time.Second)
	defer cancel()
	var seen envelope
	go func() {
		e, err := clT.Receive(ctx)
		if err == nil {
			seen = e
			_ = clT.Close()
		}
	}()
	vQuiesce()
	var err error
	who := vhChoice("who", 2)
	if who == 0 {
		err = sc.FinishSession(ctx)
	} else {
		err = sc.FailSession(ctx, &Reason{Code: 1, Description: "stop"})
	}
	vSettle()
	vReach("c13:hangup-settled")
	_ = err
	ses, ok := seen.(*Session)
	vAssert(ok, "c13:hangup-client-observed-terminal-envelope")
	if ok {
		if who == 0 {
			vAssert(ses.State == SessionStateFinished, "c13:hangup-client-saw-finished")
			vAssert(sc.State() == SessionStateFinished, "c13:hangup-server-finished")
		} else {
			vAssert(ses.State == SessionStateFailed, "c13:hangup-client-saw-failed")
			vAssert(sc.State() == SessionStateFailed, "c13:hangup-server-failed")
		}
	}
	vAssert(srvT.isClosed(), "c13:hangup-server-connection-closed")
	vAssert(vThreadsLive() <= 0, "c13:hangup-no-goroutine-left-behind")
}
