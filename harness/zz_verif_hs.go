package lime

import (
	"context"
	"errors"
	"net"
)

// ---- scripted transport (peer = arbitrary script) ------------------------------

var errVhStub = errors.New("vh: scripted transport error")

type vhTransport struct {
	sent       []envelope
	encAtSend  []SessionEncryption
	calls      []string
	closed     bool
	enc        SessionEncryption
	comp       SessionCompression
	supEnc     []SessionEncryption
	supComp    []SessionCompression
	step       int
	depth      int
	rx         func(t *vhTransport) (envelope, error)
	lastRx     *Session
	sendFails  bool
	failSends  int  // the next n sends fail
	setFailed  bool // a SetCompression / SetEncryption call failed ...
	sentAtFail int  // ... when this many envelopes had been sent
	txFailFin  int  // failed attempts to send a finished session
	setFails   bool
	rxErrs     int
	rxAliens   int
	down       bool                // the peer vanished and the transport noticed (Connected() turns false)
	encAtRecv  []SessionEncryption // options in force when each Receive was called
	compAtRecv []SessionCompression
	rxLog      []*Session // every session envelope received, in order
	sentAtRx   []int      // number of envelopes sent when each was received
}

func (t *vhTransport) Send(_ context.Context, e envelope) error {
	if t.closed {
		return errVhStub
	}
	if t.failSends > 0 {
		t.failSends--
		t.calls = append(t.calls, "send-fail")
		return errVhStub
	}
	if t.sendFails && nondetBool("tx.fail") {
		if s, ok := e.(*Session); ok && s.State == SessionStateFinished {
			t.txFailFin++
		}
		t.calls = append(t.calls, "send-fail")
		return errVhStub
	}
	t.sent = append(t.sent, e)
	t.encAtSend = append(t.encAtSend, t.enc)
	if s, ok := e.(*Session); ok {
		t.calls = append(t.calls, "send:"+string(s.State))
	} else {
		t.calls = append(t.calls, "send:data")
	}
	return nil
}

func (t *vhTransport) Receive(_ context.Context) (envelope, error) {
	t.calls = append(t.calls, "recv")
	t.encAtRecv = append(t.encAtRecv, t.enc)
	t.compAtRecv = append(t.compAtRecv, t.comp)
	if t.closed {
		return nil, errVhStub
	}
	if t.step >= t.depth {
		t.rxErrs++
		return nil, errVhStub
	}
	t.step++
	e, err := t.rx(t)
	if err != nil {
		t.rxErrs++
		if vParam("dropnotice", 0) == 1 && nondetBool("rx.drop-noticed") {
			// like a TCP end-of-stream: the transport reports itself disconnected from now on
			t.down = true
		}
		return nil, err
	}
	if s, ok := e.(*Session); ok {
		t.lastRx = s
		t.rxLog = append(t.rxLog, s)
		t.sentAtRx = append(t.sentAtRx, len(t.sent))
	} else {
		t.rxAliens++
	}
	if vParam("dropnotice", 0) == 1 && nondetBool("rx.peer-leaves-after-this") {
		// the peer sent this and closed at once; the transport already knows (in-process pair, or a read-ahead EOF)
		t.down = true
		t.rxErrs++
	}
	return e, nil
}

func (t *vhTransport) Close() error {
	t.calls = append(t.calls, "close")
	t.closed = true
	return nil
}
func (t *vhTransport) SupportedCompression() []SessionCompression { return t.supComp }
func (t *vhTransport) Compression() SessionCompression            { return t.comp }
func (t *vhTransport) SetCompression(_ context.Context, c SessionCompression) error {
	t.calls = append(t.calls, "setcomp:"+string(c))
	if t.setFails && nondetBool("setcomp.fail") {
		if !t.setFailed {
			t.setFailed, t.sentAtFail = true, len(t.sent)
		}
		return errVhStub
	}
	t.comp = c
	return nil
}
func (t *vhTransport) SupportedEncryption() []SessionEncryption { return t.supEnc }
func (t *vhTransport) Encryption() SessionEncryption            { return t.enc }
func (t *vhTransport) SetEncryption(_ context.Context, e SessionEncryption) error {
	t.calls = append(t.calls, "setenc:"+string(e))
	if t.setFails && nondetBool("setenc.fail") {
		if !t.setFailed {
			t.setFailed, t.sentAtFail = true, len(t.sent)
		}
		return errVhStub
	}
	t.enc = e
	return nil
}
func (t *vhTransport) Connected() bool      { return !t.closed && !t.down }
func (t *vhTransport) LocalAddr() net.Addr  { return InProcessAddr("vh-local") }
func (t *vhTransport) RemoteAddr() net.Addr { return InProcessAddr("vh-remote") }

func vhIndexOf(calls []string, what string, from int) int {
	for i := from; i < len(calls); i++ {
		if calls[i] == what {
			return i
		}
	}
	return -1
}

func vhCount(calls []string, what string) int {
	n := 0
	for i := 0; i < len(calls); i++ {
		if calls[i] == what {
			n++
		}
	}
	return n
}

func vhEncIn(e SessionEncryption, l []SessionEncryption) bool {
	for i := 0; i < len(l); i++ {
		if l[i] == e {
			return true
		}
	}
	return false
}

func vhCompIn(c SessionCompression, l []SessionCompression) bool {
	for i := 0; i < len(l); i++ {
		if l[i] == c {
			return true
		}
	}
	return false
}

func vhSchemeIn(s AuthenticationScheme, l []AuthenticationScheme) bool {
	for i := 0; i < len(l); i++ {
		if l[i] == s {
			return true
		}
	}
	return false
}

// ---- server handshake against an arbitrary client --------------------------------

const vhSID = "s1"

type vhAuthCall struct {
	identity Identity
	auth     Authentication
	scheme   AuthenticationScheme // scheme of the session that carried the credentials
	from     Node
	granted  bool
	failed   bool
	encAt    SessionEncryption
	sentAt   int
}

type vhRegCall struct {
	candidate Node
	returned  Node
	failed    bool
	afterAuth int
}

type vhServerEnv struct {
	t        *vhTransport
	c        *ServerChannel
	auths    []vhAuthCall
	regs     []vhRegCall
	compOpts []SessionCompression
	encOpts  []SessionEncryption
	schemes  []AuthenticationScheme
	node     Node
	cbErrors int
}

var vhEncConfigs = [][]SessionEncryption{
	{SessionEncryptionNone}, {SessionEncryptionTLS}, {SessionEncryptionNone, SessionEncryptionTLS}, {SessionEncryptionTLS, SessionEncryptionNone}}
var vhCompConfigs = [][]SessionCompression{
	{SessionCompressionNone}, {SessionCompressionNone, SessionCompressionGzip}, {SessionCompressionGzip},
	{SessionCompressionGzip, SessionCompressionNone}}
var vhSchemeConfigs = [][]AuthenticationScheme{
	{AuthenticationSchemeGuest}, {AuthenticationSchemePlain}, {AuthenticationSchemePlain, AuthenticationSchemeKey},
	{AuthenticationSchemeGuest, AuthenticationSchemeTransport, AuthenticationSchemeExternal}}

// vhClientSession: an arbitrary session envelope a client may send. Every field is a
// single symbolic value (the executor forks only where the server inspects it).
func vhClientSession(tag string, cap int) *Session {
	s := &Session{}
	s.ID = nondetString(tag+".id", len(vhSID))
	s.State = vhState(tag + ".state")
	s.From = vhNode(tag+".from", cap, false)
	s.Encryption = SessionEncryption(nondetOneOf(tag+".enc", "none|tls||zz"))
	s.Compression = SessionCompression(nondetOneOf(tag+".comp", "none|gzip||zz"))
	s.Scheme = AuthenticationScheme(nondetOneOf(tag+".scheme", "guest|plain|key|transport|external||zz"))
	if vParam("authnil", 0) == 0 {
		s.Authentication = &PlainAuthentication{Password: nondetString(tag+".pw", cap)}
	}
	return s
}

func vhClientRx(t *vhTransport) (envelope, error) {
	switch nondetChoice("rx.kind", 3) {
	case 0:
		return vhClientSession("rx", vParam("cap", 2)), nil
	case 1:
		// a data envelope injected into the handshake
		return &Message{Envelope: Envelope{ID: nondetString("rx.msgid", 2)}, Type: MediaTypeTextPlain(), Content: TextDocument("x")}, nil
	default:
		// undecodable input or a vanished peer
		return nil, errVhStub
	}
}

func vhNewServerEnv() *vhServerEnv {
	env := &vhServerEnv{}
	env.node = Node{Identity{"postmaster", "srv"}, "i1"}
	env.compOpts = vhCompConfigs[vhChoice("compcfg", len(vhCompConfigs))]
	env.encOpts = vhEncConfigs[vhChoice("enccfg", len(vhEncConfigs))]
	env.schemes = vhSchemeConfigs[vhChoice("schemecfg", len(vhSchemeConfigs))]
	t := &vhTransport{depth: vParam("depth", 3), rx: vhClientRx, comp: SessionCompressionNone}
	switch vhChoice("transport", 3) {
	case 0: // TCP-like: starts in cleartext, can upgrade
		t.enc = SessionEncryptionNone
		t.supEnc = []SessionEncryption{SessionEncryptionNone, SessionEncryptionTLS}
		t.supComp = []SessionCompression{SessionCompressionNone}
	case 1: // already encrypted, fixed (wss-like)
		t.enc = SessionEncryptionTLS
		t.supEnc = []SessionEncryption{SessionEncryptionTLS}
		t.supComp = []SessionCompression{SessionCompressionNone}
	default: // cleartext only, with optional compression support
		t.enc = SessionEncryptionNone
		t.supEnc = []SessionEncryption{SessionEncryptionNone}
		t.supComp = []SessionCompression{SessionCompressionNone, SessionCompressionGzip}
	}
	t.sendFails = vParam("sendfails", 0) == 1
	t.setFails = vParam("setfails", 0) == 1
	env.t = t
	env.c = NewServerChannel(t, 1, env.node, vhSID)
	return env
}

func (env *vhServerEnv) authenticate(_ context.Context, id Identity, a Authentication) (*AuthenticationResult, error) {
	call := vhAuthCall{identity: id, auth: a, encAt: env.t.enc, sentAt: len(env.t.sent)}
	if env.t.lastRx != nil {
		call.scheme = env.t.lastRx.Scheme
		call.from = env.t.lastRx.From
	}
	var res *AuthenticationResult
	var err error
	switch nondetChoice("auth.outcome", 6) {
	case 0:
		res = &AuthenticationResult{Role: DomainRole(nondetOneOf("auth.role", "member|authority|rootAuthority"))}
		call.granted = true
	case 2:
		res = UnknownAuthenticationResult()
	case 3:
		res = &AuthenticationResult{Role: DomainRoleUnknown, RoundTrip: &PlainAuthentication{Password: "challenge"}}
	case 4:
		res = &AuthenticationResult{}
	case 1:
		res = &AuthenticationResult{RoundTrip: &PlainAuthentication{Password: "challenge"}}
	default:
		err = errVhStub
		call.failed = true
		env.cbErrors++
	}
	env.auths = append(env.auths, call)
	return res, err
}

func (env *vhServerEnv) register(_ context.Context, candidate Node, _ *ServerChannel) (Node, error) {
	call := vhRegCall{candidate: candidate, afterAuth: len(env.auths)}
	if nondetBool("reg.fail") {
		call.failed = true
		env.cbErrors++
		env.regs = append(env.regs, call)
		return Node{}, errVhStub
	}
	call.returned = Node{Identity{nondetString("reg.name", 2), nondetString("reg.domain", 2)}, nondetString("reg.inst", 2)}
	env.regs = append(env.regs, call)
	return call.returned, nil
}

// sane: the configuration shares at least one compression and one encryption option with the connection.
func (env *vhServerEnv) sane() bool {
	okc := false
	for i := 0; i < len(env.compOpts); i++ {
		if vhCompIn(env.compOpts[i], env.t.supComp) {
			okc = true
		}
	}
	oke := false
	for i := 0; i < len(env.encOpts); i++ {
		if vhEncIn(env.encOpts[i], env.t.supEnc) {
			oke = true
		}
	}
	return okc && oke
}

func (env *vhServerEnv) establish() error {
	return env.c.EstablishSession(context.Background(), env.compOpts, env.encOpts, env.schemes, env.authenticate, env.register)
}

func vhSentSession(t *vhTransport, i int) *Session {
	s, _ := t.sent[i].(*Session)
	return s
}

// vhLastSentState: state of the last session envelope emitted ("" if none).
func vhLastSent(t *vhTransport) *Session {
	if len(t.sent) == 0 {
		return nil
	}
	return vhSentSession(t, len(t.sent)-1)
}

// HarnessC03: no session is established without successful authentication.
func HarnessC03Server() {
	env := vhNewServerEnv()
	_ = env.establish()
	t, c := env.t, env.c
	vReach("c03:handshake-returned")
	// every emitted established envelope and the established state need a granted authentication
	nEst := 0
	for i := 0; i < len(t.sent); i++ {
		s := vhSentSession(t, i)
		if s != nil && s.State == SessionStateEstablished {
			nEst++
		}
	}
	if c.state == SessionStateEstablished || nEst > 0 {
		vReach("c03:established")
		vAssert(nEst == 1, "c03:exactly-one-established-envelope")
		vAssert(c.state == SessionStateEstablished, "c03:established-envelope-only-in-established-state")
		vAssert(len(env.auths) > 0, "c03:established-requires-authenticate-call")
		if len(env.auths) == 0 {
			return
		}
		last := env.auths[len(env.auths)-1]
		vAssert(last.granted, "c03:established-requires-known-role")
		vAssert(!last.failed, "c03:established-not-after-callback-error")
		vAssert(vhSchemeIn(last.scheme, env.schemes), "c03:credentials-under-offered-scheme")
		// the callback saw the identity, scheme and credentials of the latest session this peer sent
		vAssert(t.lastRx != nil, "c03:peer-sent-a-session")
		if t.lastRx != nil {
			vAssert(last.identity == t.lastRx.From.Identity, "c03:authenticated-identity-is-the-presented-one")
			vAssert(last.auth == t.lastRx.Authentication, "c03:authenticated-credentials-are-the-presented-ones")
			vAssert(last.scheme == t.lastRx.Scheme, "c03:authenticated-scheme-is-the-presented-one")
		}
		vAssert(len(env.regs) == 1, "c03:registered-exactly-once")
		if len(env.regs) == 1 {
			r := env.regs[0]
			vAssert(!r.failed, "c03:established-not-after-registration-error")
			vAssert(r.afterAuth == len(env.auths), "c03:registration-follows-the-granting-authentication")
			if t.lastRx != nil {
				vAssert(r.candidate == t.lastRx.From, "c03:registration-candidate-is-the-presented-node")
			}
			vAssert(c.RemoteNode() == r.returned, "c03:remote-node-is-the-registered-one")
			for i := 0; i < len(t.sent); i++ {
				s := vhSentSession(t, i)
				if s != nil && s.State == SessionStateEstablished {
					vAssert(s.To == r.returned, "c03:established-announces-the-registered-address")
				}
			}
		}
		// no earlier rejected attempt is ridden on: every earlier authenticate call was a round trip
		for i := 0; i+1 < len(env.auths); i++ {
			vAssert(!env.auths[i].granted && !env.auths[i].failed, "c03:only-round-trips-before-the-grant")
		}
	} else {
		vReach("c03:not-established")
	}
}

// HarnessC07: protocol order, single id, fail closed.
func HarnessC07Server() {
	env := vhNewServerEnv()
	vAssume(env.sane())
	_ = env.establish()
	t, c := env.t, env.c
	vReach("c07:handshake-returned")
	// stage of each emitted session envelope: 1 negotiating(options) 2 negotiating(confirm) 3 authenticating(options)
	// 4 authenticating(roundtrip) 5 established 6 finished/failed
	stage := 0
	terminals := 0
	for i := 0; i < len(t.sent); i++ {
		s := vhSentSession(t, i)
		vAssert(s != nil, "c07:only-session-envelopes-during-handshake")
		if s == nil {
			return
		}
		vAssert(s.ID == vhSID, "c07:single-session-id")
		vAssert(s.From == env.node, "c07:server-node-is-sender")
		vAssert(terminals == 0, "c07:nothing-after-terminal-envelope")
		switch s.State {
		case SessionStateNegotiating:
			if len(s.EncryptionOptions) > 0 || len(s.CompressionOptions) > 0 {
				vAssert(stage == 0, "c07:negotiation-options-first")
				stage = 1
			} else {
				vAssert(stage == 1, "c07:confirmation-only-after-options")
				stage = 2
			}
		case SessionStateAuthenticating:
			if s.Authentication == nil {
				vAssert(stage == 0 || stage == 2, "c07:authentication-request-after-negotiation")
				stage = 3
			} else {
				vAssert(stage == 3 || stage == 4, "c07:round-trip-only-after-authentication-request")
				stage = 4
			}
		case SessionStateEstablished:
			vAssert(stage == 3 || stage == 4, "c07:established-only-after-authentication")
			stage = 5
		case SessionStateFailed:
			vAssert(s.Reason != nil, "c07:failed-carries-a-reason")
			terminals++
		case SessionStateFinished:
			vAssert(stage == 5, "c07:finished-only-after-established")
			terminals++
		default:
			vAssert(false, "c07:unexpected-state-emitted")
		}
	}
	vAssert(terminals <= 1, "c07:at-most-one-terminal-envelope")
	// reference model of the client's obligations: any violation must end in 'failed', never in 'established'
	if t.rxErrs == 0 && t.rxAliens == 0 && env.cbErrors == 0 && vhClientViolation(env) {
		vReach("c07:reference-model-flags-client-violation")
		vAssert(c.state != SessionStateEstablished, "c07:client-violation-never-establishes")
		vAssert(vhCount(t.calls, "send:established") == 0, "c07:no-established-envelope-after-client-violation")
		vAssert(c.state == SessionStateFailed, "c07:client-violation-fails-the-session")
	}
	// fail closed: the peer only sent session envelopes, callbacks did not fail, and yet no session was established
	if t.rxErrs == 0 && t.rxAliens == 0 && env.cbErrors == 0 && c.state != SessionStateEstablished && t.step > 0 {
		vReach("c07:client-violated-the-exchange")
		last := vhLastSent(t)
		vAssert(last != nil, "c07:violation-is-answered")
		if last != nil {
			vAssert(last.State == SessionStateFailed, "c07:violation-answered-with-failed")
			vAssert(last.Reason != nil, "c07:failed-answer-has-reason")
		}
		vAssert(t.closed, "c07:connection-closed-after-failed")
		vAssert(c.state == SessionStateFailed, "c07:server-state-is-failed")
	}
}

func vhSetEq(enc []SessionEncryption, want []SessionEncryption, sup []SessionEncryption) bool {
	// enc == want ∩ sup as sets
	for i := 0; i < len(enc); i++ {
		if !vhEncIn(enc[i], want) || !vhEncIn(enc[i], sup) {
			return false
		}
	}
	for i := 0; i < len(want); i++ {
		if vhEncIn(want[i], sup) && !vhEncIn(want[i], enc) {
			return false
		}
	}
	return true
}

func vhCompSetEq(got []SessionCompression, want []SessionCompression, sup []SessionCompression) bool {
	for i := 0; i < len(got); i++ {
		if !vhCompIn(got[i], want) || !vhCompIn(got[i], sup) {
			return false
		}
	}
	for i := 0; i < len(want); i++ {
		if vhCompIn(want[i], sup) && !vhCompIn(want[i], got) {
			return false
		}
	}
	return true
}

// vhClientViolation: reference check of the client's side of the exchange. Returns true when some
// received session breaks the protocol: first envelope not a fresh 'new', wrong id echoed, state not
// matching the server's last request, selection outside the offer, scheme that was not offered.
func vhClientViolation(env *vhServerEnv) bool {
	t := env.t
	bad := false
	for i := 0; i < len(t.rxLog); i++ {
		rx := t.rxLog[i]
		if t.sentAtRx[i] == 0 {
			if rx.State != SessionStateNew || rx.ID != "" {
				bad = true
			}
			continue
		}
		req := vhSentSession(t, t.sentAtRx[i]-1)
		if req == nil {
			continue
		}
		if rx.ID != vhSID {
			bad = true
		}
		switch req.State {
		case SessionStateNegotiating:
			if rx.State != SessionStateNegotiating {
				bad = true
			} else if len(req.EncryptionOptions) > 0 || len(req.CompressionOptions) > 0 {
				if !vhEncIn(rx.Encryption, req.EncryptionOptions) || !vhCompIn(rx.Compression, req.CompressionOptions) {
					bad = true
				}
			}
		case SessionStateAuthenticating:
			if rx.State != SessionStateAuthenticating || !vhSchemeIn(rx.Scheme, env.schemes) {
				bad = true
			}
		}
	}
	return bad
}

// HarnessC09: only offered options are negotiated and they are applied before authentication.
func HarnessC09Server() {
	env := vhNewServerEnv()
	vAssume(env.sane())
	supEnc := env.t.supEnc
	supComp := env.t.supComp
	enc0 := env.t.enc
	_ = env.establish()
	t := env.t
	vReach("c09:handshake-returned")
	var offer *Session
	var confirm *Session
	confirmAt := -1
	authAt := -1
	for i := 0; i < len(t.sent); i++ {
		s := vhSentSession(t, i)
		if s == nil {
			continue
		}
		if s.State == SessionStateNegotiating && offer == nil {
			offer = s
		} else if s.State == SessionStateNegotiating && confirm == nil {
			confirm = s
			confirmAt = i
		}
		if s.State == SessionStateAuthenticating && authAt < 0 {
			authAt = i
		}
	}
	// a proper `new` is answered with the offer whenever there is something to negotiate
	ne, nc := 0, 0
	var onlyEnc SessionEncryption
	var onlyComp SessionCompression
	for i := 0; i < len(env.encOpts); i++ {
		if vhEncIn(env.encOpts[i], supEnc) {
			ne++
			onlyEnc = env.encOpts[i]
		}
	}
	for i := 0; i < len(env.compOpts); i++ {
		if vhCompIn(env.compOpts[i], supComp) {
			nc++
			onlyComp = env.compOpts[i]
		}
	}
	if len(t.rxLog) >= 1 && t.rxLog[0].State == SessionStateNew && t.rxLog[0].ID == "" && t.rxErrs == 0 && t.rxAliens == 0 && !t.sendFails &&
		(ne > 1 || nc > 1 || (ne == 1 && onlyEnc != enc0) || (nc == 1 && onlyComp != SessionCompressionNone)) {
		vReach("c09:negotiation-needed")
		vAssert(offer != nil, "c09:negotiation-is-offered-when-there-is-a-choice")
	}
	if offer != nil {
		vReach("c09:negotiation-offered")
		vAssert(vhSetEq(offer.EncryptionOptions, env.encOpts, supEnc), "c09:offered-encryption-is-configured-and-supported")
		vAssert(vhCompSetEq(offer.CompressionOptions, env.compOpts, supComp), "c09:offered-compression-is-configured-and-supported")
	}
	if confirm != nil {
		vReach("c09:negotiation-confirmed")
		vAssert(vhEncIn(confirm.Encryption, offer.EncryptionOptions), "c09:confirmed-encryption-was-offered")
		vAssert(vhCompIn(confirm.Compression, offer.CompressionOptions), "c09:confirmed-compression-was-offered")
		if authAt >= 0 {
			vAssert(confirmAt < authAt, "c09:confirmation-before-authentication-request")
			// the connection had switched before the authentication request went out
			vAssert(t.encAtSend[authAt] == confirm.Encryption, "c09:encryption-applied-before-authentication")
			vAssert(t.comp == confirm.Compression || t.setFails, "c09:compression-applied-before-authentication")
		}
		// credentials are only looked at under the confirmed encryption
		for i := 0; i < len(env.auths); i++ {
			vAssert(env.auths[i].encAt == confirm.Encryption, "c09:credentials-examined-under-confirmed-encryption")
		}
	}
	// a reply to the offer that is not an offered pair is answered with failed
	if offer != nil && confirm == nil && t.rxErrs == 0 && t.rxAliens == 0 && !t.sendFails {
		vReach("c09:selection-rejected")
		last := vhLastSent(t)
		vAssert(last != nil && last.State == SessionStateFailed, "c09:unoffered-selection-answered-with-failed")
		vAssert(len(env.auths) == 0, "c09:no-authentication-after-rejected-selection")
	}
}

// HarnessC10: a server that does not offer cleartext never authenticates over cleartext.
func HarnessC10Server() {
	env := vhNewServerEnv()
	// precondition of the property
	vAssume(!vhEncIn(SessionEncryptionNone, env.encOpts))
	can := false
	for i := 0; i < len(env.encOpts); i++ {
		if vhEncIn(env.encOpts[i], env.t.supEnc) {
			can = true
		}
	}
	vAssume(can)
	_ = env.establish()
	t := env.t
	vReach("c10:handshake-returned")
	for i := 0; i < len(t.sent); i++ {
		s := vhSentSession(t, i)
		if s == nil {
			continue
		}
		if s.State == SessionStateAuthenticating {
			vAssert(vhEncIn(t.encAtSend[i], env.encOpts), "c10:credentials-requested-only-under-configured-encryption")
		}
		if s.State == SessionStateEstablished {
			vAssert(vhEncIn(t.encAtSend[i], env.encOpts), "c10:established-only-under-configured-encryption")
		}
	}
	for i := 0; i < len(env.auths); i++ {
		vAssert(vhEncIn(env.auths[i].encAt, env.encOpts), "c10:credentials-accepted-only-under-configured-encryption")
	}
}
