package main

// Hash-consed SMT term DAG over Bool and fixed-width bit-vectors, with
// constant folding. Every term handed to the solver is built here.

import (
	"fmt"
	"sort"
	"strconv"
	"strings"
)

type Term struct {
	id   int
	op   string
	w    int // 0 = Bool, otherwise bit-vector width
	args []*Term
	val  uint64 // const value (Bool: 0/1)
	name string // sym
	p1   int    // extract hi / extension amount
	p2   int    // extract lo
	symsDone bool
	symSet   []int // sorted ids of the symbols occurring in the term
}

// syms returns the sorted ids of the free symbols of t (memoised).
func (t *Term) syms() []int {
	if t.symsDone {
		return t.symSet
	}
	t.symsDone = true
	switch t.op {
	case "const":
	case "sym":
		t.symSet = []int{t.id}
	default:
		var acc []int
		for _, a := range t.args {
			acc = mergeSorted(acc, a.syms())
		}
		t.symSet = acc
	}
	return t.symSet
}

func mergeSorted(a, b []int) []int {
	if len(a) == 0 {
		return b
	}
	if len(b) == 0 {
		return a
	}
	out := make([]int, 0, len(a)+len(b))
	i, j := 0, 0
	for i < len(a) && j < len(b) {
		switch {
		case a[i] < b[j]:
			out = append(out, a[i])
			i++
		case a[i] > b[j]:
			out = append(out, b[j])
			j++
		default:
			out = append(out, a[i])
			i++
			j++
		}
	}
	out = append(out, a[i:]...)
	out = append(out, b[j:]...)
	return out
}

type termKey struct {
	op         string
	w, p1, p2  int
	val        uint64
	name       string
	a0, a1, a2 int
	more       string
}

var (
	termTab  = map[termKey]*Term{}
	termList []*Term
)

func mkTerm(t Term) *Term {
	k := termKey{op: t.op, w: t.w, p1: t.p1, p2: t.p2, val: t.val, name: t.name, a0: -1, a1: -1, a2: -1}
	switch len(t.args) {
	case 0:
	case 1:
		k.a0 = t.args[0].id
	case 2:
		k.a0, k.a1 = t.args[0].id, t.args[1].id
	case 3:
		k.a0, k.a1, k.a2 = t.args[0].id, t.args[1].id, t.args[2].id
	default:
		buf := make([]byte, 0, len(t.args)*6)
		for _, a := range t.args {
			buf = strconv.AppendInt(buf, int64(a.id), 36)
			buf = append(buf, ',')
		}
		k.more = string(buf)
	}
	if x, ok := termTab[k]; ok {
		return x
	}
	nt := new(Term)
	*nt = t
	nt.id = len(termList)
	termList = append(termList, nt)
	termTab[k] = nt
	return nt
}

func mask(w int) uint64 {
	if w >= 64 {
		return ^uint64(0)
	}
	return (uint64(1) << uint(w)) - 1
}

func (t *Term) IsConst() bool { return t.op == "const" }
func (t *Term) IsBool() bool  { return t.w == 0 }
func (t *Term) IsTrue() bool  { return t.op == "const" && t.w == 0 && t.val == 1 }
func (t *Term) IsFalse() bool { return t.op == "const" && t.w == 0 && t.val == 0 }

// signed value of a constant
func (t *Term) SVal() int64 {
	v := t.val
	if t.w < 64 && v&(uint64(1)<<uint(t.w-1)) != 0 {
		v |= ^mask(t.w)
	}
	return int64(v)
}

var (
	tTrue  = mkTerm(Term{op: "const", w: 0, val: 1})
	tFalse = mkTerm(Term{op: "const", w: 0, val: 0})
)

func BoolC(b bool) *Term {
	if b {
		return tTrue
	}
	return tFalse
}

func BVC(w int, v uint64) *Term { return mkTerm(Term{op: "const", w: w, val: v & mask(w)}) }
func IntC(v int64) *Term        { return BVC(64, uint64(v)) }
func Sym(name string, w int) *Term {
	return mkTerm(Term{op: "sym", w: w, name: name})
}

func Not(a *Term) *Term {
	if a.IsConst() {
		return BoolC(a.val == 0)
	}
	if a.op == "not" {
		return a.args[0]
	}
	return mkTerm(Term{op: "not", w: 0, args: []*Term{a}})
}

func nary(op string, unit bool, xs []*Term) *Term {
	var out []*Term
	seen := map[int]bool{}
	for _, x := range xs {
		if x.op == op {
			for _, y := range x.args {
				if !seen[y.id] {
					seen[y.id] = true
					out = append(out, y)
				}
			}
			continue
		}
		if x.IsConst() {
			if (x.val == 1) == unit {
				continue
			}
			return BoolC(!unit)
		}
		if !seen[x.id] {
			seen[x.id] = true
			out = append(out, x)
		}
	}
	for _, x := range out {
		if x.op == "not" && seen[x.args[0].id] {
			return BoolC(!unit)
		}
	}
	if len(out) == 0 {
		return BoolC(unit)
	}
	if len(out) == 1 {
		return out[0]
	}
	sort.Slice(out, func(i, j int) bool { return out[i].id < out[j].id })
	return mkTerm(Term{op: op, w: 0, args: out})
}

func And(xs ...*Term) *Term { return nary("and", true, xs) }
func Or(xs ...*Term) *Term  { return nary("or", false, xs) }
func Implies(a, b *Term) *Term {
	return Or(Not(a), b)
}

func Ite(c, a, b *Term) *Term {
	if c.IsConst() {
		if c.val == 1 {
			return a
		}
		return b
	}
	if a == b {
		return a
	}
	if a.w != b.w {
		panic(fmt.Sprintf("ite sort mismatch %d %d", a.w, b.w))
	}
	if a.w == 0 {
		if a.IsTrue() && b.IsFalse() {
			return c
		}
		if a.IsFalse() && b.IsTrue() {
			return Not(c)
		}
		if a.IsTrue() {
			return Or(c, b)
		}
		if a.IsFalse() {
			return And(Not(c), b)
		}
		if b.IsTrue() {
			return Or(Not(c), a)
		}
		if b.IsFalse() {
			return And(c, a)
		}
	}
	if c.op == "not" {
		return Ite(c.args[0], b, a)
	}
	return mkTerm(Term{op: "ite", w: a.w, args: []*Term{c, a, b}})
}

func Eq(a, b *Term) *Term {
	if a == b {
		return tTrue
	}
	if a.w != b.w {
		panic(fmt.Sprintf("eq sort mismatch %d %d (%s / %s)", a.w, b.w, a.String(), b.String()))
	}
	if a.IsConst() && b.IsConst() {
		return BoolC(a.val == b.val)
	}
	if a.w == 0 {
		if a.IsConst() {
			a, b = b, a
		}
		if b.IsConst() {
			if b.val == 1 {
				return a
			}
			return Not(a)
		}
	}
	// push equality with a constant through ite of constants
	if b.IsConst() && a.op == "ite" {
		return Ite(a.args[0], Eq(a.args[1], b), Eq(a.args[2], b))
	}
	if a.IsConst() && b.op == "ite" {
		return Ite(b.args[0], Eq(b.args[1], a), Eq(b.args[2], a))
	}
	if a.id > b.id {
		a, b = b, a
	}
	return mkTerm(Term{op: "=", w: 0, args: []*Term{a, b}})
}

func Neq(a, b *Term) *Term { return Not(Eq(a, b)) }

func foldBin(op string, w int, x, y uint64) (uint64, bool) {
	m := mask(w)
	sx := BVC(w, x).SVal()
	sy := BVC(w, y).SVal()
	switch op {
	case "bvadd":
		return (x + y) & m, true
	case "bvsub":
		return (x - y) & m, true
	case "bvmul":
		return (x * y) & m, true
	case "bvand":
		return x & y, true
	case "bvor":
		return x | y, true
	case "bvxor":
		return x ^ y, true
	case "bvshl":
		if y >= uint64(w) {
			return 0, true
		}
		return (x << y) & m, true
	case "bvlshr":
		if y >= uint64(w) {
			return 0, true
		}
		return (x >> y) & m, true
	case "bvashr":
		if y >= uint64(w) {
			y = uint64(w - 1)
		}
		return uint64(sx>>y) & m, true
	case "bvudiv":
		if y == 0 {
			return m, true
		}
		return x / y, true
	case "bvurem":
		if y == 0 {
			return x, true
		}
		return x % y, true
	case "bvsdiv":
		if sy == 0 {
			return 0, false
		}
		return uint64(sx/sy) & m, true
	case "bvsrem":
		if sy == 0 {
			return 0, false
		}
		return uint64(sx%sy) & m, true
	}
	return 0, false
}

func BVBin(op string, a, b *Term) *Term {
	if a.w != b.w || a.w == 0 {
		panic(fmt.Sprintf("bvbin %s sort mismatch %d %d", op, a.w, b.w))
	}
	if a.IsConst() && b.IsConst() {
		if v, ok := foldBin(op, a.w, a.val, b.val); ok {
			return BVC(a.w, v)
		}
	}
	switch op {
	case "bvadd":
		if a.IsConst() && a.val == 0 {
			return b
		}
		if b.IsConst() && b.val == 0 {
			return a
		}
		// (x + c1) + c2
		if b.IsConst() && a.op == "bvadd" && a.args[1].IsConst() {
			return BVBin("bvadd", a.args[0], BVC(a.w, a.args[1].val+b.val))
		}
		if a.IsConst() {
			a, b = b, a
		}
	case "bvsub":
		if b.IsConst() && b.val == 0 {
			return a
		}
		if a == b {
			return BVC(a.w, 0)
		}
		if b.IsConst() {
			return BVBin("bvadd", a, BVC(a.w, -b.val))
		}
	case "bvmul":
		if a.IsConst() {
			a, b = b, a
		}
		if b.IsConst() && b.val == 1 {
			return a
		}
		if b.IsConst() && b.val == 0 {
			return b
		}
	case "bvand":
		if a == b {
			return a
		}
	case "bvor":
		if a == b {
			return a
		}
	}
	return mkTerm(Term{op: op, w: a.w, args: []*Term{a, b}})
}

func BVNeg(a *Term) *Term { return BVBin("bvsub", BVC(a.w, 0), a) }
func BVNot(a *Term) *Term {
	if a.IsConst() {
		return BVC(a.w, ^a.val)
	}
	return mkTerm(Term{op: "bvnot", w: a.w, args: []*Term{a}})
}

func BVCmp(op string, a, b *Term) *Term {
	if a.w != b.w || a.w == 0 {
		panic(fmt.Sprintf("bvcmp %s sort mismatch %d %d", op, a.w, b.w))
	}
	if a.IsConst() && b.IsConst() {
		switch op {
		case "bvult":
			return BoolC(a.val < b.val)
		case "bvule":
			return BoolC(a.val <= b.val)
		case "bvslt":
			return BoolC(a.SVal() < b.SVal())
		case "bvsle":
			return BoolC(a.SVal() <= b.SVal())
		}
	}
	if a == b {
		return BoolC(op == "bvule" || op == "bvsle")
	}
	// comparisons against ite-of-constants collapse
	if b.IsConst() && a.op == "ite" && a.args[1].IsConst() && a.args[2].IsConst() {
		return Ite(a.args[0], BVCmp(op, a.args[1], b), BVCmp(op, a.args[2], b))
	}
	if a.IsConst() && b.op == "ite" && b.args[1].IsConst() && b.args[2].IsConst() {
		return Ite(b.args[0], BVCmp(op, a, b.args[1]), BVCmp(op, a, b.args[2]))
	}
	return mkTerm(Term{op: op, w: 0, args: []*Term{a, b}})
}

func Extract(hi, lo int, a *Term) *Term {
	if a.IsConst() {
		return BVC(hi-lo+1, a.val>>uint(lo))
	}
	if lo == 0 && hi == a.w-1 {
		return a
	}
	if (a.op == "zext" || a.op == "sext") && lo == 0 && hi+1 == a.args[0].w {
		return a.args[0]
	}
	return mkTerm(Term{op: "extract", w: hi - lo + 1, args: []*Term{a}, p1: hi, p2: lo})
}

func ZExt(a *Term, w int) *Term {
	if w == a.w {
		return a
	}
	if w < a.w {
		return Extract(w-1, 0, a)
	}
	if a.IsConst() {
		return BVC(w, a.val)
	}
	return mkTerm(Term{op: "zext", w: w, args: []*Term{a}, p1: w - a.w})
}

func SExt(a *Term, w int) *Term {
	if w == a.w {
		return a
	}
	if w < a.w {
		return Extract(w-1, 0, a)
	}
	if a.IsConst() {
		return BVC(w, uint64(a.SVal()))
	}
	return mkTerm(Term{op: "sext", w: w, args: []*Term{a}, p1: w - a.w})
}

func sortStr(w int) string {
	if w == 0 {
		return "Bool"
	}
	return fmt.Sprintf("(_ BitVec %d)", w)
}

func bvLit(w int, v uint64) string {
	if w%4 == 0 {
		return fmt.Sprintf("#x%0*x", w/4, v&mask(w))
	}
	return fmt.Sprintf("(_ bv%d %d)", v&mask(w), w)
}

// ref returns the text by which the term is referenced inside another
// SMT expression (leaf text for constants and symbols, t<id> otherwise).
func (t *Term) ref() string {
	switch t.op {
	case "const":
		if t.w == 0 {
			if t.val == 1 {
				return "true"
			}
			return "false"
		}
		return bvLit(t.w, t.val)
	case "sym":
		return "|" + t.name + "|"
	}
	return fmt.Sprintf("t%d", t.id)
}

// body returns the one-level SMT expression of a non-leaf term.
func (t *Term) body() string {
	var sb strings.Builder
	switch t.op {
	case "extract":
		fmt.Fprintf(&sb, "((_ extract %d %d) %s)", t.p1, t.p2, t.args[0].ref())
		return sb.String()
	case "zext":
		fmt.Fprintf(&sb, "((_ zero_extend %d) %s)", t.p1, t.args[0].ref())
		return sb.String()
	case "sext":
		fmt.Fprintf(&sb, "((_ sign_extend %d) %s)", t.p1, t.args[0].ref())
		return sb.String()
	}
	sb.WriteString("(")
	sb.WriteString(t.op)
	for _, a := range t.args {
		sb.WriteString(" ")
		sb.WriteString(a.ref())
	}
	sb.WriteString(")")
	return sb.String()
}

// String renders the full expression tree (debugging / small terms only).
func (t *Term) String() string {
	switch t.op {
	case "const", "sym":
		return t.ref()
	}
	var sb strings.Builder
	switch t.op {
	case "extract":
		fmt.Fprintf(&sb, "((_ extract %d %d) %s)", t.p1, t.p2, t.args[0].String())
		return sb.String()
	case "zext":
		fmt.Fprintf(&sb, "((_ zero_extend %d) %s)", t.p1, t.args[0].String())
		return sb.String()
	case "sext":
		fmt.Fprintf(&sb, "((_ sign_extend %d) %s)", t.p1, t.args[0].String())
		return sb.String()
	}
	sb.WriteString("(")
	sb.WriteString(t.op)
	for _, a := range t.args {
		sb.WriteString(" ")
		sb.WriteString(a.String())
	}
	sb.WriteString(")")
	return sb.String()
}

// collectDefs appends, in dependency order, every non-leaf term reachable from
// t that is not yet in seen.
func collectDefs(t *Term, seen map[int]bool, out *[]*Term) {
	if seen[t.id] {
		return
	}
	seen[t.id] = true
	for _, a := range t.args {
		collectDefs(a, seen, out)
	}
	*out = append(*out, t)
}
