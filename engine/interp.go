package main

// Interpreter for go/ssa instructions over symbolic values.

import (
	"fmt"
	"go/constant"
	"go/token"
	"go/types"
	"strings"

	"golang.org/x/tools/go/ssa"
)

type Frame struct {
	fn     *ssa.Function
	locals map[ssa.Value]Value
	free   []Value
	defers []func()
	visits map[*ssa.BasicBlock]int
	result Value
}

func (e *Exec) constVal(c *ssa.Const) Value {
	t := c.Type()
	if c.Value == nil {
		return e.zero(t)
	}
	switch u := t.Underlying().(type) {
	case *types.Basic:
		switch {
		case u.Info()&types.IsBoolean != 0:
			return BoolC(constant.BoolVal(c.Value))
		case u.Info()&types.IsInteger != 0:
			w, _ := intWidth(t)
			if i, ok := constant.Int64Val(constant.ToInt(c.Value)); ok {
				return BVC(w, uint64(i))
			}
			u64, _ := constant.Uint64Val(constant.ToInt(c.Value))
			return BVC(w, u64)
		case u.Info()&types.IsString != 0:
			return ConcStr(constant.StringVal(c.Value))
		case u.Info()&types.IsFloat != 0:
			f, _ := constant.Float64Val(c.Value)
			return OpaqueV{kind: "float", data: f}
		}
	}
	panic(e.unsupported("constant " + c.String()))
}

func (e *Exec) globalObj(g *ssa.Global) *Obj {
	if o, ok := e.globals[g]; ok {
		return o
	}
	et := g.Type().(*types.Pointer).Elem()
	var v Value
	if g.Pkg != e.x.pkg {
		v = e.foreignGlobal(g, et)
	} else {
		v = e.zero(et)
	}
	o := e.newObj(v, et, g.String())
	e.globals[g] = o
	return o
}

func (e *Exec) eval(fr *Frame, v ssa.Value) Value {
	switch x := v.(type) {
	case *ssa.Const:
		return e.constVal(x)
	case *ssa.Global:
		return PtrV{obj: e.globalObj(x)}
	case *ssa.Function:
		return &FuncV{fn: x}
	case *ssa.FreeVar:
		for i, fv := range fr.fn.FreeVars {
			if fv == x {
				return fr.free[i]
			}
		}
		panic("freevar not found")
	case *ssa.Builtin:
		return &FuncV{name: "builtin:" + x.Name()}
	}
	val, ok := fr.locals[v]
	if !ok {
		panic(fmt.Sprintf("eval: no value for %s (%T) in %s", v.Name(), v, fr.fn))
	}
	return val
}

func (e *Exec) allowInterp(fn *ssa.Function) bool {
	if fn.Pkg == nil {
		return true // synthetic wrappers / bound methods / instantiations
	}
	if fn.Pkg == e.x.pkg {
		return true
	}
	switch fn.Pkg.Pkg.Path() {
	case "golang.org/x/sync/errgroup", "go.uber.org/multierr", "io":
		return true
	}
	return false
}

func (e *Exec) callFn(th *Thread, fn *ssa.Function, args []Value) Value {
	return e.callClosure(th, fn, nil, args)
}

func (e *Exec) callClosure(th *Thread, fn *ssa.Function, free []Value, args []Value) (ret Value) {
	if in := e.lookupIntrinsic(fn); in != nil {
		e.x.stubsUsed[fn.String()] = true
		if e.local != nil {
			if name, _ := e.x.intrinsicName(fn); !mergeSafeIntrinsics[name] && !(fn.Pkg != e.x.pkg && isInitFunc(fn)) {
				e.abandon("intrinsic " + name)
			}
		}
		return in(e, th, args)
	}
	if fn.Blocks == nil || !e.allowInterp(fn) {
		panic(e.unsupported("call of " + fn.String() + " (no body / no stub)"))
	}
	if !e.x.noMerge && e.initDone && len(fn.Blocks) > 1 && e.mergeDepth < 16 && e.x.mergeable(fn) {
		e.mergeDepth++
		r, ok := e.callMerged(th, fn, free, args)
		e.mergeDepth--
		if ok {
			return r
		}
	} else if e.local != nil && !e.x.mergeable(fn) {
		e.abandon("callee " + fn.String())
	}
	return e.runBody(th, fn, free, args)
}

// runBody interprets the SSA body of fn.
func (e *Exec) runBody(th *Thread, fn *ssa.Function, free []Value, args []Value) (ret Value) {
	e.x.funcsEncoded[fn]++
	if len(th.stack) > 200 {
		panic(e.unsupported("call depth exceeded in " + fn.String()))
	}
	th.stack = append(th.stack, fn)
	fr := &Frame{fn: fn, locals: make(map[ssa.Value]Value, 16), free: free, visits: map[*ssa.BasicBlock]int{}}
	for i, p := range fn.Params {
		fr.locals[p] = args[i]
	}
	defer func() {
		if r := recover(); r != nil {
			if gp, ok := r.(goPanic); ok {
				// run deferred calls while unwinding
				e.runDefers(th, fr)
				th.stack = th.stack[:len(th.stack)-1]
				panic(gp)
			}
			panic(r)
		}
		th.stack = th.stack[:len(th.stack)-1]
	}()
	blk := fn.Blocks[0]
	var prev *ssa.BasicBlock
	for {
		fr.visits[blk]++
		e.x.nBlocks++
		limit := e.x.maxUnroll
		if fn.Pkg == e.x.pkg && (strings.HasPrefix(fn.Name(), "Harness") || strings.HasPrefix(fn.Name(), "vh")) {
			limit = 1000 // the harness's own bookkeeping loops are concrete
		}
		if fr.visits[blk] > limit {
			if th.id != 0 && e.x.params["spinok"] == 1 && e.local == nil {
				// a background thread iterating without ever blocking: a busy loop. The thread is retired so
				// that the rest of the system can be observed; the harness sees it through vSpins().
				e.spins++
				e.trace = append(e.trace, "S:spin@"+fn.Name())
				th.state = tsDone
				th.blockedOn = "busy loop in " + fn.Name()
				e.switchFrom(th)
			}
			msg := fmt.Sprintf("unwinding bound %d exceeded in %s block %d", e.x.maxUnroll, fn, blk.Index)
			panic(pathEnd{kind: "inconclusive", msg: msg})
		}
		next, done := e.runBlock(th, fr, blk, prev)
		if done {
			return fr.result
		}
		prev = blk
		blk = next
	}
}

func (e *Exec) runDefers(th *Thread, fr *Frame) {
	for len(fr.defers) > 0 {
		d := fr.defers[len(fr.defers)-1]
		fr.defers = fr.defers[:len(fr.defers)-1]
		d()
	}
}

func (e *Exec) runBlock(th *Thread, fr *Frame, blk, prev *ssa.BasicBlock) (*ssa.BasicBlock, bool) {
	// phis first (parallel assignment)
	nphi := 0
	var phiVals []Value
	for _, ins := range blk.Instrs {
		phi, ok := ins.(*ssa.Phi)
		if !ok {
			break
		}
		nphi++
		idx := -1
		for i, p := range blk.Preds {
			if p == prev {
				idx = i
				break
			}
		}
		phiVals = append(phiVals, e.eval(fr, phi.Edges[idx]))
	}
	for i := 0; i < nphi; i++ {
		fr.locals[blk.Instrs[i].(*ssa.Phi)] = phiVals[i]
	}
	for _, ins := range blk.Instrs[nphi:] {
		e.x.nInstr++
		switch in := ins.(type) {
		case *ssa.DebugRef:
		case *ssa.Alloc:
			et := in.Type().(*types.Pointer).Elem()
			fr.locals[in] = PtrV{obj: e.newObj(e.zero(et), et, in.Comment)}
		case *ssa.BinOp:
			fr.locals[in] = e.binop(th, in.Op, e.eval(fr, in.X), e.eval(fr, in.Y), in.X.Type(), in.Y.Type())
		case *ssa.UnOp:
			fr.locals[in] = e.unop(th, fr, in)
		case *ssa.Call:
			fr.locals[in] = e.doCall(th, fr, &in.Call)
		case *ssa.ChangeInterface:
			fr.locals[in] = e.eval(fr, in.X)
		case *ssa.ChangeType:
			fr.locals[in] = e.eval(fr, in.X)
		case *ssa.Convert:
			fr.locals[in] = e.convert(th, e.eval(fr, in.X), in.X.Type(), in.Type())
		case *ssa.MakeInterface:
			fr.locals[in] = IfaceV{t: in.X.Type(), v: e.eval(fr, in.X)}
		case *ssa.Extract:
			fr.locals[in] = e.eval(fr, in.Tuple).(TupleV)[in.Index]
		case *ssa.Field:
			fr.locals[in] = e.eval(fr, in.X).(*StructV).f[in.Field]
		case *ssa.FieldAddr:
			p := e.eval(fr, in.X).(PtrV)
			if p.IsNil() {
				e.raise(th, "nil-dereference", nil)
			}
			fr.locals[in] = p.sub(in.Field)
		case *ssa.IndexAddr:
			fr.locals[in] = e.indexAddr(th, e.eval(fr, in.X), e.eval(fr, in.Index).(*Term), in.Index.Type())
		case *ssa.Index:
			fr.locals[in] = e.indexVal(th, e.eval(fr, in.X), e.eval(fr, in.Index).(*Term), in.Index.Type())
		case *ssa.Lookup:
			fr.locals[in] = e.lookup(th, e.eval(fr, in.X), e.eval(fr, in.Index), in)
		case *ssa.MapUpdate:
			e.mapUpdate(th, e.eval(fr, in.Map), e.eval(fr, in.Key), e.eval(fr, in.Value), in.Key.Type())
		case *ssa.MakeMap:
			e.mapSeq++
			fr.locals[in] = MapV{m: &MapObj{id: e.mapSeq, typ: in.Type().Underlying().(*types.Map)}}
		case *ssa.MakeSlice:
			n := e.concInt(e.eval(fr, in.Len).(*Term), "make slice len")
			c := e.concInt(e.eval(fr, in.Cap).(*Term), "make slice cap")
			et := in.Type().Underlying().(*types.Slice).Elem()
			el := make([]Value, c)
			for i := range el {
				el[i] = e.zero(et)
			}
			fr.locals[in] = &SliceV{obj: e.newObj(&ArrayV{e: el}, nil, "makeslice"), len: n, cap: c}
		case *ssa.MakeChan:
			n := e.concInt(e.eval(fr, in.Size).(*Term), "make chan size")
			fr.locals[in] = e.makeChan(in.Type(), n)
		case *ssa.MakeClosure:
			fv := make([]Value, len(in.Bindings))
			for i, b := range in.Bindings {
				fv[i] = e.eval(fr, b)
			}
			fr.locals[in] = &FuncV{fn: in.Fn.(*ssa.Function), free: fv}
		case *ssa.Slice:
			fr.locals[in] = e.sliceOp(th, fr, in)
		case *ssa.Store:
			p := e.eval(fr, in.Addr).(PtrV)
			if p.IsNil() {
				e.raise(th, "nil-dereference", nil)
			}
			e.store(p, e.eval(fr, in.Val))
		case *ssa.TypeAssert:
			fr.locals[in] = e.typeAssert(th, e.eval(fr, in.X), in)
		case *ssa.Range:
			fr.locals[in] = e.rangeInit(e.eval(fr, in.X))
		case *ssa.Next:
			fr.locals[in] = e.rangeNext(e.eval(fr, in.Iter), in)
		case *ssa.Select:
			fr.locals[in] = e.selectInstr(th, fr, in)
		case *ssa.Send:
			ch := e.eval(fr, in.Chan).(ChanV)
			v := e.eval(fr, in.X)
			e.selectOp(th, []selCase{{ch: ch.c, send: true, val: v}}, false, "chan send")
		case *ssa.Go:
			e.goStmt(th, fr, &in.Call)
		case *ssa.Defer:
			c := in.Call
			thunk := e.prepareCall(th, fr, &c)
			fr.defers = append(fr.defers, func() { thunk() })
		case *ssa.RunDefers:
			e.runDefers(th, fr)
		case *ssa.Panic:
			v := e.eval(fr, in.X)
			e.raise(th, "explicit:"+e.panicText(v), v)
		case *ssa.Return:
			switch len(in.Results) {
			case 0:
				fr.result = nil
			case 1:
				fr.result = e.eval(fr, in.Results[0])
			default:
				tv := make(TupleV, len(in.Results))
				for i, r := range in.Results {
					tv[i] = e.eval(fr, r)
				}
				fr.result = tv
			}
			return nil, true
		case *ssa.Jump:
			return blk.Succs[0], false
		case *ssa.If:
			c := e.eval(fr, in.Cond).(*Term)
			if e.branch(c) {
				return blk.Succs[0], false
			}
			return blk.Succs[1], false
		default:
			panic(e.unsupported(fmt.Sprintf("instruction %T in %s", ins, fr.fn)))
		}
	}
	panic("block without terminator")
}

func (e *Exec) panicText(v Value) string {
	if iv, ok := v.(IfaceV); ok {
		if s, ok := iv.v.(*StrV); ok {
			if c, ok := s.Concrete(); ok {
				return c
			}
		}
		if p, ok := iv.v.(PtrV); ok && p.obj != nil {
			if ed, ok := p.obj.val.(*ErrData); ok {
				return ed.name
			}
		}
	}
	return "value"
}

func (e *Exec) concInt(t *Term, what string) int {
	if t.IsConst() {
		return int(t.SVal())
	}
	panic(e.unsupported("symbolic " + what))
}

// ---- calls ----------------------------------------------------------------

// prepareCall evaluates callee and arguments now and returns a thunk that
// performs the call.
func (e *Exec) prepareCall(th *Thread, fr *Frame, c *ssa.CallCommon) func() Value {
	args := make([]Value, 0, len(c.Args)+1)
	if c.IsInvoke() {
		recv := e.eval(fr, c.Value)
		for _, a := range c.Args {
			args = append(args, e.eval(fr, a))
		}
		return func() Value { return e.invoke(e.cur, recv, c.Method, args) }
	}
	for _, a := range c.Args {
		args = append(args, e.eval(fr, a))
	}
	switch f := c.Value.(type) {
	case *ssa.Builtin:
		types_ := make([]types.Type, len(c.Args))
		for i, a := range c.Args {
			types_[i] = a.Type()
		}
		return func() Value { return e.builtin(e.cur, f.Name(), args, types_) }
	case *ssa.Function:
		return func() Value { return e.callFn(e.cur, f, args) }
	}
	fv := e.eval(fr, c.Value)
	return func() Value { return e.callValue(e.cur, fv, args) }
}

func (e *Exec) callValue(th *Thread, fv Value, args []Value) Value {
	f, _ := fv.(*FuncV)
	if f.IsNil() {
		e.raise(th, "nil-func-call", nil)
	}
	if f.intr != nil {
		e.abandon("engine-provided function value " + f.name)
		return f.intr(e, th, args)
	}
	return e.callClosure(th, f.fn, f.free, args)
}

func (e *Exec) doCall(th *Thread, fr *Frame, c *ssa.CallCommon) Value {
	return e.prepareCall(th, fr, c)()
}

func (e *Exec) goStmt(th *Thread, fr *Frame, c *ssa.CallCommon) {
	e.abandon("go statement")
	thunk := e.prepareCall(th, fr, c)
	name := "go"
	if f := c.StaticCallee(); f != nil {
		name = "go:" + f.Name()
	}
	e.spawn(th, name, func(t *Thread) { thunk() })
	e.preemptPoint(th)
}

func (e *Exec) methodOf(t types.Type, m *types.Func) *ssa.Function {
	ms := e.x.prog.MethodSets.MethodSet(t)
	sel := ms.Lookup(m.Pkg(), m.Name())
	if sel == nil {
		return nil
	}
	return e.x.prog.MethodValue(sel)
}

func (e *Exec) invoke(th *Thread, recv Value, m *types.Func, args []Value) Value {
	iv, ok := recv.(IfaceV)
	if !ok || iv.t == nil {
		e.raise(th, "nil-interface-method-call", nil)
	}
	if p, ok := iv.v.(PtrV); ok && p.obj != nil {
		switch d := p.obj.val.(type) {
		case *ErrData:
			return e.errMethod(th, d, iv, m.Name(), args)
		case *CtxData:
			return e.ctxMethod(th, d, m.Name(), args)
		case *TLSData:
			return e.tlsMethod(th, d, m.Name(), args)
		}
	}
	fn := e.methodOf(iv.t, m)
	if fn == nil {
		panic(e.unsupported(fmt.Sprintf("method %s on %s", m.Name(), iv.t)))
	}
	return e.callFn(th, fn, append([]Value{iv.v}, args...))
}

// ---- operators ------------------------------------------------------------

func (e *Exec) valueEq(a, b Value) *Term {
	switch x := a.(type) {
	case *Term:
		return Eq(x, b.(*Term))
	case *StrV:
		return StrEq(x, b.(*StrV))
	case *StructV:
		y := b.(*StructV)
		cs := make([]*Term, len(x.f))
		for i := range x.f {
			cs[i] = e.valueEq(x.f[i], y.f[i])
		}
		return And(cs...)
	case *ArrayV:
		y := b.(*ArrayV)
		cs := make([]*Term, len(x.e))
		for i := range x.e {
			cs[i] = e.valueEq(x.e[i], y.e[i])
		}
		return And(cs...)
	case PtrV:
		y := b.(PtrV)
		return BoolC(x.key() == y.key())
	case IfaceV:
		y := b.(IfaceV)
		if x.t == nil || y.t == nil {
			return BoolC(x.t == nil && y.t == nil)
		}
		if !types.Identical(x.t, y.t) {
			return tFalse
		}
		return e.valueEq(x.v, y.v)
	case ChanV:
		return BoolC(x.c == b.(ChanV).c)
	case MapV:
		return BoolC(x.m == nil && b.(MapV).m == nil)
	case *SliceV:
		y, _ := b.(*SliceV)
		return BoolC(x.IsNil() && y.IsNil())
	case *FuncV:
		y, _ := b.(*FuncV)
		return BoolC(x.IsNil() && y.IsNil())
	case *BytesV:
		return tFalse
	case TimeV:
		return Eq(x.t, b.(TimeV).t)
	case nil:
		return BoolC(b == nil)
	}
	panic(e.unsupported(fmt.Sprintf("equality on %T", a)))
}

func (e *Exec) binop(th *Thread, op token.Token, a, b Value, ta, tb types.Type) Value {
	switch op {
	case token.EQL:
		return e.eqNil(a, b)
	case token.NEQ:
		return Not(e.eqNil(a, b))
	}
	switch x := a.(type) {
	case *StrV:
		y := b.(*StrV)
		switch op {
		case token.ADD:
			return e.strConcat(x, y)
		}
		if cs, ok := x.Concrete(); ok {
			if ct, ok := y.Concrete(); ok {
				switch op {
				case token.LSS:
					return BoolC(cs < ct)
				case token.LEQ:
					return BoolC(cs <= ct)
				case token.GTR:
					return BoolC(cs > ct)
				case token.GEQ:
					return BoolC(cs >= ct)
				}
			}
		}
		panic(e.unsupported("string operator " + op.String()))
	case *Term:
		y := b.(*Term)
		if x.w == 0 {
			switch op {
			case token.AND, token.LAND:
				return And(x, y)
			case token.OR, token.LOR:
				return Or(x, y)
			case token.XOR:
				return Not(Eq(x, y))
			}
			panic(e.unsupported("bool operator " + op.String()))
		}
		_, signed := intWidth(ta)
		switch op {
		case token.ADD:
			return BVBin("bvadd", x, y)
		case token.SUB:
			return BVBin("bvsub", x, y)
		case token.MUL:
			return BVBin("bvmul", x, y)
		case token.QUO, token.REM:
			if e.verdictOrConcrete(th, "division-by-zero", Eq(y, BVC(y.w, 0))) {
				e.raise(th, "division-by-zero", nil)
			}
			o := map[bool]map[token.Token]string{true: {token.QUO: "bvsdiv", token.REM: "bvsrem"}, false: {token.QUO: "bvudiv", token.REM: "bvurem"}}[signed][op]
			return BVBin(o, x, y)
		case token.AND:
			return BVBin("bvand", x, y)
		case token.OR:
			return BVBin("bvor", x, y)
		case token.XOR:
			return BVBin("bvxor", x, y)
		case token.AND_NOT:
			return BVBin("bvand", x, BVNot(y))
		case token.SHL, token.SHR:
			if y.w != x.w {
				if y.w > x.w {
					big := BVCmp("bvule", BVC(y.w, uint64(x.w)), y)
					y2 := Ite(big, BVC(x.w, uint64(x.w)), Extract(x.w-1, 0, y))
					y = y2
				} else {
					y = ZExt(y, x.w)
				}
			}
			if op == token.SHL {
				return BVBin("bvshl", x, y)
			}
			if signed {
				return BVBin("bvashr", x, y)
			}
			return BVBin("bvlshr", x, y)
		case token.LSS:
			if signed {
				return BVCmp("bvslt", x, y)
			}
			return BVCmp("bvult", x, y)
		case token.LEQ:
			if signed {
				return BVCmp("bvsle", x, y)
			}
			return BVCmp("bvule", x, y)
		case token.GTR:
			if signed {
				return BVCmp("bvslt", y, x)
			}
			return BVCmp("bvult", y, x)
		case token.GEQ:
			if signed {
				return BVCmp("bvsle", y, x)
			}
			return BVCmp("bvule", y, x)
		}
	case OpaqueV:
		return OpaqueV{kind: x.kind, data: nil}
	case TimeV:
	}
	panic(e.unsupported(fmt.Sprintf("binop %s on %T", op, a)))
}

// eqNil handles comparisons in which one side is an untyped-nil-converted value.
func (e *Exec) eqNil(a, b Value) *Term {
	if a == nil || b == nil {
		x := a
		if x == nil {
			x = b
		}
		switch v := x.(type) {
		case nil:
			return tTrue
		case PtrV:
			return BoolC(v.IsNil())
		case IfaceV:
			return BoolC(v.t == nil)
		case *SliceV:
			return BoolC(v.IsNil())
		case *BytesV:
			return BoolC(v == nil || v.nilb)
		case *AbufV:
			return tFalse
		case MapV:
			return BoolC(v.m == nil)
		case ChanV:
			return BoolC(v.c == nil)
		case *FuncV:
			return BoolC(v.IsNil())
		}
	}
	// slice-like comparisons with nil of the other representation
	if bv, ok := a.(*BytesV); ok {
		if sv, ok := b.(*SliceV); ok && sv.IsNil() {
			return BoolC(bv == nil || bv.nilb)
		}
	}
	if bv, ok := b.(*BytesV); ok {
		if sv, ok := a.(*SliceV); ok && sv.IsNil() {
			return BoolC(bv == nil || bv.nilb)
		}
	}
	return e.valueEq(a, b)
}

// verdictOrConcrete: is the bad condition reachable? (records a violation
// candidate when it is symbolic and satisfiable, then assumes it away).
func (e *Exec) verdictOrConcrete(th *Thread, label string, bad *Term) bool {
	if bad.IsConst() {
		return bad.val == 1
	}
	if e.local != nil {
		if e.feasible(bad) {
			e.abandon("possible panic " + label)
		}
		return false
	}
	e.flushPending()
	site := e.siteOf(th)
	if e.expectPanic == 0 {
		e.verdict("panic:"+label+"@"+site, site, bad)
	}
	e.assume(Not(bad))
	if !e.feasibleNow() {
		panic(pathEnd{kind: "infeasible"})
	}
	return false
}

func (e *Exec) unop(th *Thread, fr *Frame, in *ssa.UnOp) Value {
	x := e.eval(fr, in.X)
	switch in.Op {
	case token.MUL:
		p := x.(PtrV)
		if p.IsNil() {
			e.raise(th, "nil-dereference", nil)
		}
		return e.load(p)
	case token.NOT:
		return Not(x.(*Term))
	case token.SUB:
		if t, ok := x.(*Term); ok {
			return BVNeg(t)
		}
		return x
	case token.XOR:
		return BVNot(x.(*Term))
	case token.ARROW:
		ch := x.(ChanV)
		_, v, ok := e.selectOp(th, []selCase{{ch: ch.c}}, false, "chan receive")
		if in.CommaOk {
			return TupleV{v, BoolC(ok)}
		}
		return v
	}
	panic(e.unsupported("unop " + in.Op.String()))
}

func (e *Exec) convert(th *Thread, v Value, from, to types.Type) Value {
	fu, tu := from.Underlying(), to.Underlying()
	if fb, ok := fu.(*types.Basic); ok {
		if tb, ok := tu.(*types.Basic); ok {
			switch {
			case fb.Info()&types.IsInteger != 0 && tb.Info()&types.IsInteger != 0:
				_, fs := intWidth(from)
				tw, _ := intWidth(to)
				t := v.(*Term)
				if fs {
					return SExt(t, tw)
				}
				return ZExt(t, tw)
			case fb.Info()&types.IsString != 0 && tb.Info()&types.IsString != 0:
				return v
			case fb.Info()&types.IsFloat != 0 && tb.Info()&types.IsInteger != 0:
				tw, _ := intWidth(to)
				return e.fresh("float2int", tw)
			case tb.Info()&types.IsFloat != 0:
				return OpaqueV{kind: "float"}
			case fb.Info()&types.IsInteger != 0 && tb.Info()&types.IsString != 0:
				panic(e.unsupported("int to string conversion"))
			}
		}
		if _, ok := tu.(*types.Slice); ok && fb.Info()&types.IsString != 0 {
			return &BytesV{str: v.(*StrV)}
		}
	}
	if _, ok := fu.(*types.Slice); ok {
		if tb, ok := tu.(*types.Basic); ok && tb.Info()&types.IsString != 0 {
			return e.bytesToStr(v)
		}
	}
	if types.Identical(fu, tu) {
		return v
	}
	panic(e.unsupported(fmt.Sprintf("conversion %s -> %s", from, to)))
}

func (e *Exec) bytesToStr(v Value) *StrV {
	switch b := v.(type) {
	case *BytesV:
		if b == nil || b.nilb {
			return ConcStr("")
		}
		if b.str != nil {
			return b.str
		}
		if b.json != nil && b.json.kind == jStr {
			panic(e.unsupported("string(json bytes)"))
		}
	case *SliceV:
		if b.IsNil() {
			return ConcStr("")
		}
		arr := b.obj.val.(*ArrayV)
		bs := make([]*Term, b.len)
		for i := 0; i < b.len; i++ {
			bs[i] = arr.e[b.off+i].(*Term)
		}
		return &StrV{n: IntC(int64(b.len)), b: bs}
	}
	panic(e.unsupported(fmt.Sprintf("string(%T)", v)))
}

func (e *Exec) typeAssert(th *Thread, x Value, in *ssa.TypeAssert) Value {
	iv := x.(IfaceV)
	ok := false
	if iv.t != nil {
		if it, isI := in.AssertedType.Underlying().(*types.Interface); isI {
			ok = types.Implements(iv.t, it)
		} else {
			ok = types.Identical(iv.t, in.AssertedType)
		}
	}
	var res Value
	if ok {
		if _, isI := in.AssertedType.Underlying().(*types.Interface); isI {
			res = iv
		} else {
			res = iv.v
		}
	} else {
		res = e.zero(in.AssertedType)
	}
	if in.CommaOk {
		return TupleV{res, BoolC(ok)}
	}
	if !ok {
		e.raise(th, "failed-type-assertion", nil)
	}
	return res
}

// ---- slices, arrays, maps -------------------------------------------------

func (e *Exec) forkIndex(idx *Term, n int, what string) int {
	if idx.IsConst() {
		return int(idx.SVal())
	}
	conds := make([]*Term, n)
	for i := 0; i < n; i++ {
		conds[i] = Eq(idx, BVC(idx.w, uint64(i)))
	}
	return e.choose("idx:"+what, n, conds, false)
}

func (e *Exec) indexAddr(th *Thread, x Value, idx *Term, it types.Type) Value {
	if idx.w != 64 {
		if _, s := intWidth(it); s {
			idx = SExt(idx, 64)
		} else {
			idx = ZExt(idx, 64)
		}
	}
	switch c := x.(type) {
	case *SliceV:
		if c.IsNil() {
			e.raise(th, "index-out-of-range", nil)
		}
		var oob *Term
		if c.symLen != nil {
			oob = Not(BVCmp("bvult", idx, c.symLen))
		} else {
			oob = Not(BVCmp("bvult", idx, IntC(int64(c.len))))
		}
		if e.verdictOrConcrete(th, "index-out-of-range", oob) {
			e.raise(th, "index-out-of-range", nil)
		}
		i := e.forkIndex(idx, c.len, "slice")
		return PtrV{obj: c.obj, path: []int{c.off + i}}
	case PtrV:
		if c.IsNil() {
			e.raise(th, "nil-dereference", nil)
		}
		arr := e.load(c).(*ArrayV)
		oob := Not(BVCmp("bvult", idx, IntC(int64(len(arr.e)))))
		if e.verdictOrConcrete(th, "index-out-of-range", oob) {
			e.raise(th, "index-out-of-range", nil)
		}
		i := e.forkIndex(idx, len(arr.e), "array")
		return c.sub(i)
	case *BytesV:
		panic(e.unsupported("indexing into immutable byte slice"))
	}
	panic(e.unsupported(fmt.Sprintf("IndexAddr on %T", x)))
}

func (e *Exec) indexVal(th *Thread, x Value, idx *Term, it types.Type) Value {
	if idx.w != 64 {
		idx = ZExt(idx, 64)
	}
	switch c := x.(type) {
	case *ArrayV:
		oob := Not(BVCmp("bvult", idx, IntC(int64(len(c.e)))))
		if e.verdictOrConcrete(th, "index-out-of-range", oob) {
			e.raise(th, "index-out-of-range", nil)
		}
		return c.e[e.forkIndex(idx, len(c.e), "arrayval")]
	case *StrV:
		oob := Not(BVCmp("bvult", idx, c.n))
		if e.verdictOrConcrete(th, "index-out-of-range", oob) {
			e.raise(th, "index-out-of-range", nil)
		}
		i := e.forkIndex(idx, len(c.b), "str")
		return c.b[i]
	}
	panic(e.unsupported(fmt.Sprintf("Index on %T", x)))
}

func (e *Exec) sliceOp(th *Thread, fr *Frame, in *ssa.Slice) Value {
	x := e.eval(fr, in.X)
	get := func(v ssa.Value, def int) int {
		if v == nil {
			return def
		}
		return e.concInt(e.eval(fr, v).(*Term), "slice bound")
	}
	switch c := x.(type) {
	case *SliceV:
		if c.IsNil() {
			lo, hi := get(in.Low, 0), get(in.High, 0)
			if lo != 0 || hi != 0 {
				e.raise(th, "slice-bounds-out-of-range", nil)
			}
			return c
		}
		if c.symLen != nil {
			panic(e.unsupported("slicing a symbolic-length slice"))
		}
		lo, hi, mx := get(in.Low, 0), get(in.High, c.len), get(in.Max, c.cap)
		if lo < 0 || hi < lo || hi > c.cap || mx > c.cap || mx < hi {
			e.raise(th, "slice-bounds-out-of-range", nil)
		}
		return &SliceV{obj: c.obj, off: c.off + lo, len: hi - lo, cap: mx - lo}
	case PtrV:
		if c.IsNil() {
			e.raise(th, "nil-dereference", nil)
		}
		arr := e.load(c).(*ArrayV)
		lo, hi := get(in.Low, 0), get(in.High, len(arr.e))
		if len(c.path) != 0 {
			panic(e.unsupported("slicing a nested array"))
		}
		if lo < 0 || hi < lo || hi > len(arr.e) {
			e.raise(th, "slice-bounds-out-of-range", nil)
		}
		return &SliceV{obj: c.obj, off: lo, len: hi - lo, cap: len(arr.e) - lo}
	case *StrV:
		return e.substr(th, c, in, fr)
	case *BytesV:
		if in.Low == nil && in.High == nil {
			return c
		}
		if in.High == nil && in.Low != nil {
			// b[0:] is b (keeps the JSON tree of an encoded frame through ctxConn.Write's b[written:])
			if lo, ok := e.eval(fr, in.Low).(*Term); ok && lo.IsConst() && lo.val == 0 {
				return c
			}
		}
		if c != nil && !c.nilb && c.n != nil {
			return e.abufSlice(th, fr, in, c.n)
		}
	case *AbufV:
		return e.abufSlice(th, fr, in, c.n)
	}
	panic(e.unsupported(fmt.Sprintf("Slice on %T", x)))
}

func (e *Exec) mapFind(m *MapObj, key Value, what string) int {
	// returns entry index or -1; forks when the comparison is symbolic
	var conds []*Term
	var idxs []int
	none := []*Term{}
	for i, en := range m.entries {
		c := e.valueEq(en.k, key)
		if c.IsTrue() {
			if len(conds) == 0 {
				return i
			}
		}
		if c.IsFalse() {
			continue
		}
		conds = append(conds, And(append(append([]*Term{}, none...), c)...))
		idxs = append(idxs, i)
		none = append(none, Not(c))
		if c.IsTrue() {
			break
		}
	}
	if len(conds) == 0 {
		return -1
	}
	conds = append(conds, And(none...))
	idxs = append(idxs, -1)
	k := e.choose("map:"+what, len(conds), conds, true)
	return idxs[k]
}

func (e *Exec) lookup(th *Thread, x Value, key Value, in *ssa.Lookup) Value {
	switch m := x.(type) {
	case MapV:
		vt := in.X.Type().Underlying().(*types.Map).Elem()
		i := -1
		if m.m != nil {
			i = e.mapFind(m.m, key, "lookup")
		}
		var v Value
		if i >= 0 {
			v = m.m.entries[i].v
		} else {
			v = e.zero(vt)
		}
		if in.CommaOk {
			return TupleV{v, BoolC(i >= 0)}
		}
		return v
	case *StrV:
		return e.indexVal(th, m, key.(*Term), in.Index.Type())
	}
	panic(e.unsupported(fmt.Sprintf("Lookup on %T", x)))
}

func (e *Exec) mapUpdate(th *Thread, x Value, key, val Value, kt types.Type) {
	m := x.(MapV)
	if m.m == nil {
		e.raise(th, "assignment-to-nil-map", nil)
	}
	if e.local != nil && m.m.id <= e.local.entryMap {
		e.abandon("write to a pre-existing map")
	}
	i := e.mapFind(m.m, key, "update")
	if i >= 0 {
		m.m.entries[i].v = val
		return
	}
	m.m.entries = append(m.m.entries, MapEntry{k: key, v: val})
}

type rangeIter struct {
	m   *MapObj
	s   *StrV
	pos int
}

func (e *Exec) rangeInit(x Value) Value {
	switch c := x.(type) {
	case MapV:
		return &rangeIter{m: c.m}
	case *StrV:
		if _, ok := c.Concrete(); ok {
			return &rangeIter{s: c}
		}
	}
	panic(e.unsupported(fmt.Sprintf("range over %T", x)))
}

func (e *Exec) rangeNext(it Value, in *ssa.Next) Value {
	r := it.(*rangeIter)
	if in.IsString {
		s, _ := r.s.Concrete()
		if r.pos >= len(s) {
			return TupleV{tFalse, IntC(0), BVC(32, 0)}
		}
		p := r.pos
		r.pos++
		return TupleV{tTrue, IntC(int64(p)), BVC(32, uint64(s[p]))}
	}
	tt := in.Type().(*types.Tuple)
	if r.m == nil || r.pos >= len(r.m.entries) {
		return TupleV{tFalse, e.zeroOrNil(tt.At(1).Type()), e.zeroOrNil(tt.At(2).Type())}
	}
	en := r.m.entries[r.pos]
	r.pos++
	return TupleV{tTrue, en.k, en.v}
}

func (e *Exec) zeroOrNil(t types.Type) Value {
	if b, ok := t.(*types.Basic); ok && b.Kind() == types.Invalid {
		return nil
	}
	return e.zero(t)
}

func (e *Exec) selectInstr(th *Thread, fr *Frame, in *ssa.Select) Value {
	cases := make([]selCase, len(in.States))
	for i, st := range in.States {
		ch := e.eval(fr, st.Chan).(ChanV)
		cases[i] = selCase{ch: ch.c, send: st.Dir == types.SendOnly}
		if cases[i].send {
			cases[i].val = e.eval(fr, st.Send)
		}
	}
	idx, v, ok := e.selectOp(th, cases, !in.Blocking, "select in "+fr.fn.Name())
	res := TupleV{IntC(int64(idx)), BoolC(ok)}
	for i, st := range in.States {
		if st.Dir == types.RecvOnly {
			if i == idx {
				res = append(res, v)
			} else {
				res = append(res, e.zero(st.Chan.Type().Underlying().(*types.Chan).Elem()))
			}
		}
	}
	return res
}

// abufSlice: b[lo:hi] on a buffer of symbolic length n.
func (e *Exec) abufSlice(th *Thread, fr *Frame, in *ssa.Slice, n *Term) Value {
	lo, hi := IntC(0), n
	if in.Low != nil {
		lo = e.eval(fr, in.Low).(*Term)
	}
	if in.High != nil {
		hi = e.eval(fr, in.High).(*Term)
	}
	if lo.w != 64 {
		lo = SExt(lo, 64)
	}
	if hi.w != 64 {
		hi = SExt(hi, 64)
	}
	bad := Or(BVCmp("bvslt", lo, IntC(0)), BVCmp("bvslt", hi, lo), BVCmp("bvslt", n, hi))
	if e.verdictOrConcrete(th, "slice-bounds-out-of-range", bad) {
		e.raise(th, "slice-bounds-out-of-range", nil)
	}
	return &AbufV{n: BVBin("bvsub", hi, lo)}
}

// ---- builtins -------------------------------------------------------------

func (e *Exec) builtin(th *Thread, name string, args []Value, ats []types.Type) Value {
	switch name {
	case "len":
		switch c := args[0].(type) {
		case *StrV:
			return c.n
		case *SliceV:
			if c.IsNil() {
				return IntC(0)
			}
			if c.symLen != nil {
				return c.symLen
			}
			return IntC(int64(c.len))
		case *BytesV:
			if c == nil || c.nilb {
				return IntC(0)
			}
			if c.str != nil {
				return c.str.n
			}
			return e.jsonLen(c)
		case *AbufV:
			return c.n
		case MapV:
			if c.m == nil {
				return IntC(0)
			}
			return IntC(int64(len(c.m.entries)))
		case ChanV:
			if c.c == nil {
				return IntC(0)
			}
			return IntC(int64(len(c.c.buf)))
		case PtrV:
			return IntC(int64(len(e.load(c).(*ArrayV).e)))
		}
	case "cap":
		switch c := args[0].(type) {
		case *SliceV:
			if c.IsNil() {
				return IntC(0)
			}
			return IntC(int64(c.cap))
		case ChanV:
			if c.c == nil {
				return IntC(0)
			}
			return IntC(int64(c.c.cap))
		}
	case "append":
		return e.appendOp(th, args[0], args[1], ats[0])
	case "copy":
		dst, _ := args[0].(*SliceV)
		var n int
		switch src := args[1].(type) {
		case *SliceV:
			if dst.IsNil() || src.IsNil() {
				return IntC(0)
			}
			n = dst.len
			if src.len < n {
				n = src.len
			}
			sa := src.obj.val.(*ArrayV)
			for i := 0; i < n; i++ {
				e.store(PtrV{obj: dst.obj, path: []int{dst.off + i}}, sa.e[src.off+i])
			}
			return IntC(int64(n))
		}
	case "close":
		e.preemptPoint(th)
		e.closeChan(th, args[0].(ChanV).c)
		return nil
	case "delete":
		m := args[0].(MapV)
		if m.m == nil {
			return nil
		}
		if e.local != nil && m.m.id <= e.local.entryMap {
			e.abandon("delete from a pre-existing map")
		}
		i := e.mapFind(m.m, args[1], "delete")
		if i >= 0 {
			m.m.entries = append(append([]MapEntry{}, m.m.entries[:i]...), m.m.entries[i+1:]...)
		}
		return nil
	case "print", "println":
		return nil
	case "ssa:wrapnilchk":
		if p, ok := args[0].(PtrV); ok && p.IsNil() {
			e.raise(th, "nil-dereference", nil)
		}
		return args[0]
	case "panic":
		e.raise(th, "explicit:"+e.panicText(args[0]), args[0])
	}
	panic(e.unsupported(fmt.Sprintf("builtin %s on %T", name, args[0])))
}

func (e *Exec) appendOp(th *Thread, s, more Value, st types.Type) Value {
	dst, _ := s.(*SliceV)
	if bv, ok := s.(*BytesV); ok && (bv == nil || bv.nilb) {
		dst = nil
	}
	var add []Value
	switch m := more.(type) {
	case *SliceV:
		if !m.IsNil() {
			if m.symLen != nil {
				panic(e.unsupported("append of symbolic-length slice"))
			}
			arr := m.obj.val.(*ArrayV)
			for i := 0; i < m.len; i++ {
				add = append(add, e.load(PtrV{obj: m.obj, path: []int{m.off + i}}))
			}
			_ = arr
		}
	case *BytesV:
		if m != nil && !m.nilb {
			panic(e.unsupported("append of immutable bytes"))
		}
	case *StrV:
		panic(e.unsupported("append(bytes, string...)"))
	}
	if len(add) == 0 {
		if dst == nil {
			return (*SliceV)(nil)
		}
		return dst
	}
	if dst != nil && dst.symLen != nil {
		panic(e.unsupported("append to symbolic-length slice"))
	}
	if dst != nil && !dst.IsNil() && dst.len+len(add) <= dst.cap {
		for i, v := range add {
			e.store(PtrV{obj: dst.obj, path: []int{dst.off + dst.len + i}}, v)
		}
		return &SliceV{obj: dst.obj, off: dst.off, len: dst.len + len(add), cap: dst.cap}
	}
	oldLen := 0
	if dst != nil && !dst.IsNil() {
		oldLen = dst.len
	}
	ncap := oldLen*2 + len(add)
	el := make([]Value, ncap)
	for i := 0; i < oldLen; i++ {
		el[i] = e.load(PtrV{obj: dst.obj, path: []int{dst.off + i}})
	}
	copy(el[oldLen:], add)
	et := st.Underlying().(*types.Slice).Elem()
	for i := oldLen + len(add); i < ncap; i++ {
		el[i] = e.zero(et)
	}
	return &SliceV{obj: e.newObj(&ArrayV{e: el}, nil, "append"), len: oldLen + len(add), cap: ncap}
}

// initPackage runs the package initialisers of lime-go (and only those).
func (e *Exec) initPackage(th *Thread) {
	defer func() { e.initDone = true }()
	initFn := e.x.pkg.Func("init")
	if initFn == nil {
		return
	}
	// the init guard and calls to other packages' init functions are skipped by
	// interpreting the body but treating foreign init calls as no-ops.
	e.callFn(th, initFn, nil)
}

func isInitFunc(fn *ssa.Function) bool {
	return fn.Name() == "init" && fn.Signature.Recv() == nil && fn.Signature.Params().Len() == 0 && !strings.Contains(fn.String(), "$")
}
