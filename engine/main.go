package main

// gosmt: symbolic execution of lime-go's SSA (loaded from the current working
// tree of the repository) with harness files injected as an overlay.

import (
	"crypto/sha256"
	"encoding/json"
	"flag"
	"fmt"
	"os"
	"path/filepath"
	"runtime/pprof"
	"sort"
	"strconv"
	"strings"
	"time"

	"golang.org/x/tools/go/packages"
	"golang.org/x/tools/go/ssa"
	"golang.org/x/tools/go/ssa/ssautil"
)

type multiFlag []string

func (m *multiFlag) String() string     { return strings.Join(*m, ",") }
func (m *multiFlag) Set(s string) error { *m = append(*m, s); return nil }

type Result struct {
	Harness       string                   `json:"harness"`
	Params        map[string]int           `json:"params"`
	Paths         int                      `json:"paths"`
	PathsAssert   int                      `json:"paths_with_assertions"`
	DistinctSigs  int                      `json:"distinct_path_signatures"`
	Infeasible    int                      `json:"infeasible_prunes"`
	Blocks        int64                    `json:"states"`
	Instrs        int64                    `json:"transitions"`
	Verdicts      int                      `json:"verdict_queries"`
	VerdictsUnsat int                      `json:"verdict_unsat"`
	Queries       map[string]int           `json:"queries"`
	SolverTimeS   float64                  `json:"solver_time_s"`
	WallS         float64                  `json:"wall_s"`
	LoadS         float64                  `json:"load_s"`
	Exhausted     bool                     `json:"exhausted"`
	Inconclusive  []string                 `json:"inconclusive"`
	SolverErrors  []string                 `json:"solver_errors"`
	Violations    []*Violation             `json:"violations"`
	Reach         map[string]*ReachWitness `json:"reach"`
	ReachCount    map[string]int           `json:"reach_count"`
	Functions     []map[string]interface{} `json:"functions_encoded"`
	Stubs         []string                 `json:"stubs_used"`
	Samples       []map[string]interface{} `json:"samples"`
	SSAHash       string                   `json:"ssa_hash"`
	Solver        string                   `json:"solver"`
	MaxUnroll     int                      `json:"max_unroll"`
	Merge         map[string]int           `json:"merge"`
	CacheHits     int                      `json:"query_cache_hits"`
	DecKinds      map[string]int           `json:"decision_kinds"`
}

func main() {
	var (
		repo     = flag.String("repo", "/repo", "repository directory")
		hdir     = flag.String("harness-dir", "/verif/harness", "directory of harness overlay files")
		harness  = flag.String("harness", "", "harness function name")
		out      = flag.String("out", "", "result JSON path")
		solver   = flag.String("solver", "z3-new", "solver binary")
		timeoutQ = flag.Int("qtimeout", 60, "per-query timeout (s)")
		maxPaths = flag.Int("maxpaths", 0, "path budget (0 = none)")
		budget   = flag.Int("budget", 0, "time budget in seconds (0 = none)")
		verbose  = flag.Bool("v", false, "verbose")
		unroll   = flag.Int("unroll", 64, "loop unwinding bound per frame and block")
		dumpDir  = flag.String("dump", "", "directory for standalone verdict queries")
		dumpMax  = flag.Int("dumpmax", 4, "maximum number of verdict queries to dump")
		dumpEv   = flag.Int("dumpevery", 37, "dump every n-th verdict query")
		slog     = flag.String("solverlog", "", "log of solver input")
		list     = flag.Bool("list", false, "list harness functions")
		noMerge  = flag.Bool("nomerge", false, "disable function-level state merging")
		eager    = flag.Bool("eager", false, "discharge every assertion with its own query")
		params   multiFlag
	)
	cpuprof := flag.String("cpuprofile", "", "write cpu profile")
	flag.Var(&params, "param", "name=int harness parameter (repeatable)")
	flag.Parse()
	if *cpuprof != "" {
		f, _ := os.Create(*cpuprof)
		pprof.StartCPUProfile(f)
		defer pprof.StopCPUProfile()
	}

	t0 := time.Now()
	overlay := map[string][]byte{}
	files, _ := filepath.Glob(filepath.Join(*hdir, "zz_verif_*.go"))
	for _, f := range files {
		if strings.HasSuffix(f, "_test.go") {
			continue
		}
		b, err := os.ReadFile(f)
		if err != nil {
			fatal(err)
		}
		overlay[filepath.Join(*repo, filepath.Base(f))] = b
	}
	cfg := &packages.Config{Mode: packages.LoadAllSyntax, Dir: *repo, Overlay: overlay,
		Env: append(os.Environ(), "GOFLAGS=-mod=mod", "GOPROXY=off", "GOSUMDB=off", "GOTOOLCHAIN=local")}
	pkgs, err := packages.Load(cfg, ".")
	if err != nil {
		fatal(err)
	}
	if packages.PrintErrors(pkgs) > 0 {
		fmt.Println("INCONCLUSIVE: the repository (with harness overlay) does not type-check")
		os.Exit(2)
	}
	prog, spkgs := ssautil.AllPackages(pkgs, ssa.InstantiateGenerics)
	prog.Build()
	pkg := spkgs[0]
	loadS := time.Since(t0).Seconds()

	if *list {
		for name := range pkg.Members {
			if strings.HasPrefix(name, "Harness") {
				fmt.Println(name)
			}
		}
		return
	}
	hf := pkg.Func(*harness)
	if hf == nil {
		fmt.Printf("INCONCLUSIVE: harness %s not found\n", *harness)
		os.Exit(2)
	}
	sv, err := NewSolver(*solver, *timeoutQ, *slog)
	if err != nil {
		fatal(err)
	}
	defer sv.Close()
	x := &Explorer{prog: prog, pkg: pkg, harness: hf, solver: sv, params: map[string]int{}, maxPaths: *maxPaths,
		verbose: *verbose, maxUnroll: *unroll, dumpDir: *dumpDir, noMerge: *noMerge, eager: *eager, dumpMax: *dumpMax, dumpEvery: *dumpEv}
	for _, p := range params {
		k, v, _ := strings.Cut(p, "=")
		n, _ := strconv.Atoi(v)
		x.params[k] = n
	}
	if *budget > 0 {
		x.deadline = time.Now().Add(time.Duration(*budget) * time.Second)
	}
	if *dumpDir != "" {
		os.MkdirAll(*dumpDir, 0o755)
	}
	x.Explore()

	res := &Result{Harness: *harness, Params: x.params, Paths: x.nPaths, PathsAssert: x.nPathsAssert,
		DistinctSigs: len(x.pathSigs), Infeasible: x.nInfeasible, Blocks: x.nBlocks, Instrs: x.nInstr,
		Verdicts: x.nVerdict, VerdictsUnsat: x.nVerdictUnsat,
		Queries:     map[string]int{"sat": sv.nSat, "unsat": sv.nUnsat, "unknown": sv.nUnknown, "total": sv.nQueries},
		SolverTimeS: sv.solveT.Seconds(), WallS: time.Since(t0).Seconds(), LoadS: loadS, Exhausted: x.exhausted,
		Inconclusive: dedupe(x.inconclusive), SolverErrors: dedupe(sv.errSeen), Violations: x.violations, Reach: x.reach,
		ReachCount: x.reachCount, Functions: x.encodedList(), Samples: x.samples, Solver: *solver, MaxUnroll: *unroll}
	res.Merge = map[string]int{"attempts": x.nMergeAttempts, "abandoned": x.nMergeAbandoned, "paths_merged_away": x.nMerged}
	res.CacheHits = sv.nCacheHits
	res.DecKinds = x.decKinds
	for s := range x.stubsUsed {
		if !strings.Contains(s, "lime-go.") {
			res.Stubs = append(res.Stubs, s)
		}
	}
	sort.Strings(res.Stubs)
	res.SSAHash = hashFuncs(x)
	b, _ := json.MarshalIndent(res, "", " ")
	if *out != "" {
		os.WriteFile(*out, b, 0o644)
	} else {
		os.Stdout.Write(b)
		fmt.Println()
	}
	fmt.Fprintf(os.Stderr, "%s %v: paths=%d verdicts=%d/%d unsat violations=%d inconclusive=%d solver=%.1fs wall=%.1fs\n",
		*harness, x.params, x.nPaths, x.nVerdictUnsat, x.nVerdict, len(x.violations), len(res.Inconclusive)+len(res.SolverErrors), sv.solveT.Seconds(), time.Since(t0).Seconds())
}

func hashFuncs(x *Explorer) string {
	var names []string
	byName := map[string]*ssa.Function{}
	for f := range x.funcsEncoded {
		if f.Pkg == x.pkg {
			names = append(names, f.String())
			byName[f.String()] = f
		}
	}
	sort.Strings(names)
	h := sha256.New()
	for _, n := range names {
		var sb strings.Builder
		byName[n].WriteTo(&sb)
		h.Write([]byte(sb.String()))
	}
	return fmt.Sprintf("%x", h.Sum(nil))[:16]
}

func dedupe(xs []string) []string {
	seen := map[string]bool{}
	out := []string{}
	for _, s := range xs {
		if !seen[s] {
			seen[s] = true
			out = append(out, s)
		}
	}
	return out
}

func fatal(err error) {
	fmt.Fprintln(os.Stderr, "gosmt:", err)
	os.Exit(2)
}
