package main

// More of package strings over the bounded-string representation (constant needles only): what a
// plausible refactoring of lime-go's parsing code would reach for.

import "strings"

// strSlice: s[st:en] for symbolic bounds (0 <= st <= en <= len assumed by the callers' construction).
func (e *Exec) strSlice(s *StrV, st, en *Term) *StrV {
	if st.IsConst() && en.IsConst() {
		if c, ok := s.Concrete(); ok {
			return ConcStr(c[int(st.val):int(en.val)])
		}
	}
	capS := len(s.b)
	b := make([]*Term, capS)
	for k := 0; k < capS; k++ {
		var sel *Term = BVC(8, 0)
		if st.IsConst() {
			sel = s.at(int(st.val) + k)
		} else {
			for v := capS - 1 - k; v >= 0; v-- {
				sel = Ite(Eq(st, IntC(int64(v))), s.b[v+k], sel)
			}
		}
		b[k] = Ite(BVCmp("bvult", BVBin("bvadd", st, IntC(int64(k))), en), sel, BVC(8, 0))
	}
	return &StrV{n: BVBin("bvsub", en, st), b: b}
}

func (e *Exec) needle(v Value, what string) string {
	c, ok := v.(*StrV).Concrete()
	if !ok {
		panic(e.unsupported(what + " with a symbolic needle"))
	}
	return c
}

// matchAt: sub occurs in s at position i.
func matchAt(s *StrV, sub string, i int) *Term {
	cs := []*Term{BVCmp("bvule", IntC(int64(i+len(sub))), s.n)}
	for j := 0; j < len(sub); j++ {
		cs = append(cs, Eq(s.at(i+j), BVC(8, uint64(sub[j]))))
	}
	return And(cs...)
}

// strIndex: first (last) index of sub in s, -1 if absent.
func strIndex(s *StrV, sub string, last bool) *Term {
	if c, ok := s.Concrete(); ok {
		if last {
			return IntC(int64(strings.LastIndex(c, sub)))
		}
		return IntC(int64(strings.Index(c, sub)))
	}
	idx := IntC(-1)
	n := len(s.b) - len(sub)
	if last {
		for i := 0; i <= n; i++ {
			idx = Ite(matchAt(s, sub, i), IntC(int64(i)), idx)
		}
	} else {
		for i := n; i >= 0; i-- {
			idx = Ite(matchAt(s, sub, i), IntC(int64(i)), idx)
		}
	}
	return idx
}

func strHasSuffix(s *StrV, suf string) *Term {
	if c, ok := s.Concrete(); ok {
		return BoolC(strings.HasSuffix(c, suf))
	}
	var cs []*Term
	for k := len(suf); k <= len(s.b); k++ {
		cs = append(cs, And(Eq(s.n, IntC(int64(k))), matchAt(s, suf, k-len(suf))))
	}
	return Or(cs...)
}

func isSpaceByte(b *Term) *Term {
	return Or(Eq(b, BVC(8, ' ')), Eq(b, BVC(8, '\t')), Eq(b, BVC(8, '\n')), Eq(b, BVC(8, '\r')), Eq(b, BVC(8, '\v')), Eq(b, BVC(8, '\f')))
}

func mapBytes(s *StrV, lo, hi byte, delta int) *StrV {
	b := make([]*Term, len(s.b))
	for i := range s.b {
		in := And(BVCmp("bvule", BVC(8, uint64(lo)), s.b[i]), BVCmp("bvule", s.b[i], BVC(8, uint64(hi))))
		b[i] = Ite(in, BVBin("bvadd", s.b[i], BVC(8, uint64(uint8(delta)))), s.b[i])
	}
	return &StrV{n: s.n, b: b}
}

func registerStrings2() {
	reg := func(name string, f intrinsic) { intrinsics[name] = f; mergeSafeIntrinsics[name] = true }
	reg("strings.Contains", func(e *Exec, th *Thread, a []Value) Value {
		return Not(Eq(strIndex(a[0].(*StrV), e.needle(a[1], "strings.Contains"), false), IntC(-1)))
	})
	reg("strings.Index", func(e *Exec, th *Thread, a []Value) Value {
		return strIndex(a[0].(*StrV), e.needle(a[1], "strings.Index"), false)
	})
	reg("strings.LastIndex", func(e *Exec, th *Thread, a []Value) Value {
		return strIndex(a[0].(*StrV), e.needle(a[1], "strings.LastIndex"), true)
	})
	byteArg := func(e *Exec, v Value, what string) string {
		t := v.(*Term)
		if !t.IsConst() || t.val >= 0x80 {
			panic(e.unsupported(what + " with a symbolic or non-ASCII byte"))
		}
		return string([]byte{byte(t.val)})
	}
	reg("strings.IndexByte", func(e *Exec, th *Thread, a []Value) Value {
		return strIndex(a[0].(*StrV), byteArg(e, a[1], "strings.IndexByte"), false)
	})
	reg("strings.IndexRune", func(e *Exec, th *Thread, a []Value) Value {
		return strIndex(a[0].(*StrV), byteArg(e, a[1], "strings.IndexRune"), false)
	})
	reg("strings.LastIndexByte", func(e *Exec, th *Thread, a []Value) Value {
		return strIndex(a[0].(*StrV), byteArg(e, a[1], "strings.LastIndexByte"), true)
	})
	reg("strings.ContainsRune", func(e *Exec, th *Thread, a []Value) Value {
		return Not(Eq(strIndex(a[0].(*StrV), byteArg(e, a[1], "strings.ContainsRune"), false), IntC(-1)))
	})
	reg("strings.ContainsAny", func(e *Exec, th *Thread, a []Value) Value {
		chars := e.needle(a[1], "strings.ContainsAny")
		var cs []*Term
		for i := 0; i < len(chars); i++ {
			cs = append(cs, Not(Eq(strIndex(a[0].(*StrV), chars[i:i+1], false), IntC(-1))))
		}
		return Or(cs...)
	})
	reg("strings.Count", func(e *Exec, th *Thread, a []Value) Value {
		s, sub := a[0].(*StrV), e.needle(a[1], "strings.Count")
		if len(sub) != 1 {
			panic(e.unsupported("strings.Count with a needle that is not one byte"))
		}
		cnt := IntC(0)
		for i := 0; i < len(s.b); i++ {
			cnt = BVBin("bvadd", cnt, Ite(matchAt(s, sub, i), IntC(1), IntC(0)))
		}
		return cnt
	})
	reg("strings.HasSuffix", func(e *Exec, th *Thread, a []Value) Value {
		return strHasSuffix(a[0].(*StrV), e.needle(a[1], "strings.HasSuffix"))
	})
	reg("strings.TrimPrefix", func(e *Exec, th *Thread, a []Value) Value {
		s, p := a[0].(*StrV), e.needle(a[1], "strings.TrimPrefix")
		has := e.strHasPrefix(s, ConcStr(p))
		return e.strSlice(s, Ite(has, IntC(int64(len(p))), IntC(0)), s.n)
	})
	reg("strings.TrimSuffix", func(e *Exec, th *Thread, a []Value) Value {
		s, p := a[0].(*StrV), e.needle(a[1], "strings.TrimSuffix")
		has := strHasSuffix(s, p)
		return e.strSlice(s, IntC(0), Ite(has, BVBin("bvsub", s.n, IntC(int64(len(p)))), s.n))
	})
	reg("strings.Cut", func(e *Exec, th *Thread, a []Value) Value {
		s, sep := a[0].(*StrV), e.needle(a[1], "strings.Cut")
		i := strIndex(s, sep, false)
		found := Not(Eq(i, IntC(-1)))
		before := e.strSlice(s, IntC(0), Ite(found, i, s.n))
		after := e.strSlice(s, Ite(found, BVBin("bvadd", i, IntC(int64(len(sep)))), s.n), s.n)
		return TupleV{before, after, found}
	})
	reg("strings.TrimSpace", func(e *Exec, th *Thread, a []Value) Value {
		s := a[0].(*StrV)
		if c, ok := s.Concrete(); ok {
			return ConcStr(strings.TrimSpace(c))
		}
		st := s.n
		for i := len(s.b) - 1; i >= 0; i-- {
			st = Ite(And(BVCmp("bvult", IntC(int64(i)), s.n), Not(isSpaceByte(s.b[i]))), IntC(int64(i)), st)
		}
		en := st
		for i := 0; i < len(s.b); i++ {
			en = Ite(And(BVCmp("bvult", IntC(int64(i)), s.n), Not(isSpaceByte(s.b[i]))), IntC(int64(i+1)), en)
		}
		return e.strSlice(s, st, en)
	})
	reg("strings.ToLower", func(e *Exec, th *Thread, a []Value) Value { return mapBytes(a[0].(*StrV), 'A', 'Z', 32) })
	reg("strings.ToUpper", func(e *Exec, th *Thread, a []Value) Value { return mapBytes(a[0].(*StrV), 'a', 'z', -32) })
	reg("strings.EqualFold", func(e *Exec, th *Thread, a []Value) Value {
		x, y := mapBytes(a[0].(*StrV), 'A', 'Z', 32), mapBytes(a[1].(*StrV), 'A', 'Z', 32)
		n := len(x.b)
		if len(y.b) > n {
			n = len(y.b)
		}
		cs := []*Term{Eq(x.n, y.n)}
		for i := 0; i < n; i++ {
			cs = append(cs, Eq(x.at(i), y.at(i)))
		}
		return And(cs...)
	})
}
