package main

// Bounded-string operations on the byte-vector representation.

import (
	"go/types"

	"golang.org/x/tools/go/ssa"
)

const maxStrCap = 96

func (e *Exec) strConcat(a, b *StrV) *StrV {
	if ca, ok := a.Concrete(); ok {
		if cb, ok := b.Concrete(); ok {
			return ConcStr(ca + cb)
		}
		if ca == "" {
			return b
		}
	}
	if cb, ok := b.Concrete(); ok && cb == "" {
		return a
	}
	capA, capB := len(a.b), len(b.b)
	n := capA + capB
	if n > maxStrCap {
		panic(e.unsupported("string concatenation beyond the capacity bound"))
	}
	out := make([]*Term, n)
	if a.n.IsConst() {
		la := int(a.n.val)
		for i := 0; i < n; i++ {
			if i < la {
				out[i] = a.at(i)
			} else {
				out[i] = b.at(i - la)
			}
		}
		// trim trailing constant zeros beyond possible length
		return &StrV{n: BVBin("bvadd", a.n, b.n), b: trimCap(out, la+capB)}
	}
	for i := 0; i < n; i++ {
		// b-part: chain over possible values of a.n
		var sel *Term = BVC(8, 0)
		maxk := i
		if maxk > capA {
			maxk = capA
		}
		for k := maxk; k >= 0; k-- {
			if i-k >= capB {
				continue
			}
			sel = Ite(Eq(a.n, IntC(int64(k))), b.at(i-k), sel)
		}
		out[i] = BVBin("bvor", a.at(i), sel)
	}
	return &StrV{n: BVBin("bvadd", a.n, b.n), b: out}
}

func trimCap(b []*Term, n int) []*Term {
	if n < len(b) {
		return b[:n]
	}
	return b
}

// freshStr makes a fully symbolic string of capacity cap with the padding
// invariant and 7-bit bytes as path assumptions.
func (e *Exec) freshStr(tag string, cap int) (*StrV, []*Term) {
	n8 := e.fresh(tag+".len", 8)
	n := ZExt(n8, 64)
	e.assume(BVCmp("bvule", n8, BVC(8, uint64(cap))))
	b := make([]*Term, cap)
	terms := []*Term{n8}
	for i := 0; i < cap; i++ {
		b[i] = e.fresh(tag+".b", 8)
		terms = append(terms, b[i])
		e.assume(BVCmp("bvule", b[i], BVC(8, 0x7f)))
		e.assume(Implies(BVCmp("bvule", n8, BVC(8, uint64(i))), Eq(b[i], BVC(8, 0))))
	}
	return &StrV{n: n, b: b}, terms
}

// strSplit models strings.Split(s, sep) for a one-byte constant separator.
func (e *Exec) strSplit(th *Thread, s *StrV, sepV *StrV, elemT types.Type) Value {
	sep, ok := sepV.Concrete()
	if !ok || len(sep) != 1 {
		panic(e.unsupported("strings.Split with non-constant or multi-byte separator"))
	}
	if cs, ok := s.Concrete(); ok {
		var parts []Value
		start := 0
		for i := 0; i <= len(cs); i++ {
			if i == len(cs) || cs[i] == sep[0] {
				parts = append(parts, ConcStr(cs[start:i]))
				start = i + 1
			}
		}
		return &SliceV{obj: e.newObj(&ArrayV{e: parts}, nil, "split"), len: len(parts), cap: len(parts)}
	}
	capS := len(s.b)
	sc := BVC(8, uint64(sep[0]))
	isSep := make([]*Term, capS)
	count := IntC(0)
	for i := 0; i < capS; i++ {
		isSep[i] = Eq(s.b[i], sc)
		count = BVBin("bvadd", count, Ite(isSep[i], IntC(1), IntC(0)))
	}
	maxPieces := capS + 1
	starts := make([]*Term, maxPieces+1)
	ends := make([]*Term, maxPieces)
	starts[0] = IntC(0)
	computed := 0
	pieceEnd := func(j int) {
		for computed <= j {
			st := starts[computed]
			end := s.n
			for i := capS - 1; i >= 0; i-- {
				end = Ite(And(BVCmp("bvule", st, IntC(int64(i))), isSep[i]), IntC(int64(i)), end)
			}
			ends[computed] = end
			starts[computed+1] = BVBin("bvadd", end, IntC(1))
			computed++
		}
	}
	elems := make([]Value, maxPieces)
	for j := 0; j < maxPieces; j++ {
		j := j
		elems[j] = &LazyV{f: func() Value {
			pieceEnd(j)
			st, en := starts[j], ends[j]
			b := make([]*Term, capS)
			for k := 0; k < capS; k++ {
				var sel *Term = BVC(8, 0)
				if st.IsConst() {
					sel = s.at(int(st.val) + k)
				} else {
					for v := capS - 1 - k; v >= 0; v-- {
						sel = Ite(Eq(st, IntC(int64(v))), s.b[v+k], sel)
					}
				}
				b[k] = Ite(BVCmp("bvult", BVBin("bvadd", st, IntC(int64(k))), en), sel, BVC(8, 0))
			}
			return &StrV{n: BVBin("bvsub", en, st), b: b}
		}}
	}
	return &SliceV{obj: e.newObj(&ArrayV{e: elems}, nil, "split"), len: maxPieces, cap: maxPieces,
		symLen: BVBin("bvadd", count, IntC(1))}
}

func (e *Exec) strHasPrefix(s, p *StrV) *Term {
	cp, ok := p.Concrete()
	if !ok {
		panic(e.unsupported("HasPrefix with symbolic prefix"))
	}
	cs := []*Term{BVCmp("bvule", IntC(int64(len(cp))), s.n)}
	for i := 0; i < len(cp); i++ {
		cs = append(cs, Eq(s.at(i), BVC(8, uint64(cp[i]))))
	}
	return And(cs...)
}

func (e *Exec) substr(th *Thread, s *StrV, in *ssa.Slice, fr *Frame) Value {
	lo, hi := 0, -1
	if in.Low != nil {
		lo = e.concInt(e.eval(fr, in.Low).(*Term), "substring bound")
	}
	if in.High != nil {
		hi = e.concInt(e.eval(fr, in.High).(*Term), "substring bound")
	}
	if hi < 0 {
		// s[lo:]: needs a symbolic shift unless len is concrete
		if !s.n.IsConst() {
			if lo == 0 {
				return s
			}
			oob := BVCmp("bvult", s.n, IntC(int64(lo)))
			if e.verdictOrConcrete(th, "slice-bounds-out-of-range", oob) {
				e.raise(th, "slice-bounds-out-of-range", nil)
			}
			nb := make([]*Term, 0, len(s.b))
			for i := lo; i < len(s.b); i++ {
				nb = append(nb, s.b[i])
			}
			return &StrV{n: BVBin("bvsub", s.n, IntC(int64(lo))), b: nb}
		}
		hi = int(s.n.val)
	}
	oob := Or(BoolC(lo > hi), BVCmp("bvult", s.n, IntC(int64(hi))))
	if e.verdictOrConcrete(th, "slice-bounds-out-of-range", oob) {
		e.raise(th, "slice-bounds-out-of-range", nil)
	}
	nb := make([]*Term, hi-lo)
	for i := lo; i < hi; i++ {
		nb[i-lo] = s.at(i)
	}
	return &StrV{n: IntC(int64(hi - lo)), b: nb}
}
