package main

// One persistent SMT solver process (z3 -in). Terms are introduced by
// global define-fun / declare-const, path conditions live on a push/pop stack
// that is re-aligned (longest common prefix) whenever a new path is executed.

import (
	"bufio"
	"fmt"
	"io"
	"os"
	"os/exec"
	"strconv"
	"strings"
	"time"
)

type Solver struct {
	cmd      *exec.Cmd
	in       io.WriteCloser
	out      *bufio.Reader
	defined  map[int]bool
	stack    []*Term
	seq      int
	errSeen  []string
	nSat     int
	nUnsat   int
	nUnknown int
	nQueries int
	solveT   time.Duration
	logf     *os.File
	timeoutS int
	checkCmd string
	cache    map[string]*cacheEnt
	nCacheHits int
	noSlice    bool
}

type cacheEnt struct {
	res   string
	model map[*Term]uint64
}

func NewSolver(bin string, timeoutS int, logPath string) (*Solver, error) {
	args := []string{"-in"}
	if strings.Contains(bin, "cvc5") {
		args = []string{"--incremental", "--produce-models", "--lang=smt2", fmt.Sprintf("--tlimit-per=%d", timeoutS*1000)}
	}
	cmd := exec.Command(bin, args...)
	in, err := cmd.StdinPipe()
	if err != nil {
		return nil, err
	}
	outp, err := cmd.StdoutPipe()
	if err != nil {
		return nil, err
	}
	cmd.Stderr = cmd.Stdout
	if err := cmd.Start(); err != nil {
		return nil, err
	}
	s := &Solver{cmd: cmd, in: in, out: bufio.NewReaderSize(outp, 1<<20), defined: map[int]bool{}, timeoutS: timeoutS, checkCmd: "(check-sat)"}
	if strings.Contains(bin, "z3") {
		s.checkCmd = "(check-sat-using (or-else (try-for smt 150) qfbv))"
	}
	if logPath != "" {
		s.logf, _ = os.Create(logPath)
	}
	s.send("(set-option :global-declarations true)")
	s.send("(set-option :produce-models true)")
	if !strings.Contains(bin, "cvc5") {
		s.send(fmt.Sprintf("(set-option :timeout %d)", timeoutS*1000))
	}
	s.barrier()
	return s, nil
}

func (s *Solver) Close() {
	if s.in != nil {
		s.in.Close()
	}
	if s.cmd != nil {
		s.cmd.Process.Kill()
		s.cmd.Wait()
	}
	if s.logf != nil {
		s.logf.Close()
	}
}

func (s *Solver) send(line string) {
	if s.logf != nil {
		fmt.Fprintln(s.logf, line)
	}
	io.WriteString(s.in, line)
	io.WriteString(s.in, "\n")
}

// barrier reads solver output up to an echoed marker and returns the lines.
func (s *Solver) barrier() []string {
	s.seq++
	marker := fmt.Sprintf("done-%d", s.seq)
	s.send(fmt.Sprintf("(echo \"%s\")", marker))
	var lines []string
	for {
		l, err := s.out.ReadString('\n')
		if err != nil {
			s.errSeen = append(s.errSeen, "solver died: "+err.Error())
			return lines
		}
		l = strings.TrimRight(l, "\r\n")
		if l == marker || l == "\""+marker+"\"" {
			break
		}
		if strings.HasPrefix(l, "(error") {
			s.errSeen = append(s.errSeen, l)
		}
		lines = append(lines, l)
	}
	return lines
}

func (s *Solver) define(t *Term) {
	if s.defined[t.id] {
		return
	}
	var defs []*Term
	collectDefs(t, s.defined, &defs)
	for _, d := range defs {
		switch d.op {
		case "const":
		case "sym":
			s.send(fmt.Sprintf("(declare-const %s %s)", d.ref(), sortStr(d.w)))
		default:
			s.send(fmt.Sprintf("(define-fun %s () %s %s)", d.ref(), sortStr(d.w), d.body()))
		}
	}
}

// litOf returns a propositional literal for a Boolean term: constants and
// applications are named by define-fun, symbols are themselves.
func (s *Solver) litOf(t *Term) string {
	s.define(t)
	return t.ref()
}

const (
	rSat     = "sat"
	rUnsat   = "unsat"
	rUnknown = "unknown"
)

// slice returns the conjuncts of pc that share symbols (transitively) with extra.
// Valid because pc itself is satisfiable (an invariant of path exploration):
// conjuncts over disjoint symbols cannot influence the answer.
func sliceFor(pc []*Term, extra *Term) []*Term {
	need := map[int]bool{}
	for _, s := range extra.syms() {
		need[s] = true
	}
	if len(need) == 0 {
		return nil
	}
	included := make([]bool, len(pc))
	for changed := true; changed; {
		changed = false
		for i, c := range pc {
			if included[i] {
				continue
			}
			hit := false
			for _, s := range c.syms() {
				if need[s] {
					hit = true
					break
				}
			}
			if hit {
				included[i] = true
				changed = true
				for _, s := range c.syms() {
					need[s] = true
				}
			}
		}
	}
	var out []*Term
	for i, c := range pc {
		if included[i] {
			out = append(out, c)
		}
	}
	return out
}

// Check decides pc ∧ extra. If want is non-nil and the answer is sat, the
// values of want are returned (this forces the full, unsliced query).
func (s *Solver) Check(pc []*Term, extra *Term, want []*Term) (string, map[*Term]uint64) {
	if extra != nil && extra.IsFalse() {
		return rUnsat, nil
	}
	if extra != nil && !extra.IsTrue() && !s.noSlice {
		r, _ := s.check1(sliceFor(pc, extra), extra, nil)
		if r != rSat || len(want) == 0 {
			return r, nil
		}
	}
	return s.check1(pc, extra, want)
}

func (s *Solver) check1(pc []*Term, extra *Term, wantAll []*Term) (string, map[*Term]uint64) {
	var want []*Term
	seenW := map[*Term]bool{}
	for _, w := range wantAll {
		if !w.IsConst() && !seenW[w] {
			seenW[w] = true
			want = append(want, w)
		}
	}
	if len(wantAll) > 0 && len(want) == 0 {
		want = []*Term{tTrue}[:0]
	}
	// query cache: identical (pc, extra) pairs recur on every re-execution of a prefix
	var kb strings.Builder
	for _, c := range pc {
		kb.WriteString(strconv.Itoa(c.id))
		kb.WriteByte(',')
	}
	if extra != nil {
		kb.WriteByte('|')
		kb.WriteString(strconv.Itoa(extra.id))
	}
	key := kb.String()
	if s.cache == nil {
		s.cache = map[string]*cacheEnt{}
	}
	if ent, ok := s.cache[key]; ok {
		if ent.res != rSat || len(wantAll) == 0 {
			s.nCacheHits++
			return ent.res, ent.model
		}
		if ent.model != nil {
			all := true
			for _, w := range want {
				if _, ok := ent.model[w]; !ok && !w.IsConst() {
					all = false
					break
				}
			}
			if all {
				s.nCacheHits++
				return ent.res, ent.model
			}
		}
	}
	var sb strings.Builder
	sb.WriteString("(assert (and true ")
	for _, c := range pc {
		if c.IsTrue() {
			continue
		}
		sb.WriteString(s.litOf(c))
		sb.WriteString(" ")
	}
	if extra != nil && !extra.IsTrue() {
		sb.WriteString(s.litOf(extra))
	}
	sb.WriteString("))")
	s.send("(push 1)")
	for _, w := range want {
		s.define(w)
	}
	t0 := time.Now()
	s.send(sb.String())
	s.send(s.checkCmd)
	lines := s.barrier()
	s.solveT += time.Since(t0)
	s.nQueries++
	res := rUnknown
	for _, l := range lines {
		switch strings.TrimSpace(l) {
		case "sat":
			res = rSat
		case "unsat":
			res = rUnsat
		case "unknown", "timeout":
			res = rUnknown
		}
	}
	var model map[*Term]uint64
	if res == rSat && len(wantAll) > 0 {
		model = map[*Term]uint64{}
		for i := 0; i < len(want); i += 64 {
			j := i + 64
			if j > len(want) {
				j = len(want)
			}
			var sb strings.Builder
			sb.WriteString("(get-value (")
			for _, w := range want[i:j] {
				sb.WriteString(w.ref())
				sb.WriteString(" ")
			}
			sb.WriteString("))")
			s.send(sb.String())
			out := strings.Join(s.barrier(), " ")
			vals := parseValues(out)
			if len(vals) != j-i {
				s.errSeen = append(s.errSeen, "get-value parse: "+out)
				res = rUnknown
				break
			}
			for k, w := range want[i:j] {
				model[w] = vals[k]
			}
		}
	}
	s.send("(pop 1)")
	if res != rUnknown {
		s.cache[key] = &cacheEnt{res: res, model: model}
	}
	switch res {
	case rSat:
		s.nSat++
	case rUnsat:
		s.nUnsat++
	default:
		s.nUnknown++
	}
	return res, model
}

// parseValues extracts, in order, the value literal of every (name value)
// pair in a get-value answer.
func parseValues(out string) []uint64 {
	var vals []uint64
	// tokens: we look for #x.., #b.., true, false, (_ bvN W) right before a ')'
	i := 0
	depth := 0
	for i < len(out) {
		c := out[i]
		switch {
		case c == '(':
			depth++
			// (_ bvN W)
			if strings.HasPrefix(out[i:], "(_ bv") {
				j := i + 5
				var v uint64
				for j < len(out) && out[j] >= '0' && out[j] <= '9' {
					v = v*10 + uint64(out[j]-'0')
					j++
				}
				for j < len(out) && out[j] != ')' {
					j++
				}
				vals = append(vals, v)
				i = j + 1
				depth--
				continue
			}
			i++
		case c == ')':
			depth--
			i++
		case c == '#' && i+1 < len(out) && (out[i+1] == 'x' || out[i+1] == 'b'):
			base := uint64(16)
			if out[i+1] == 'b' {
				base = 2
			}
			j := i + 2
			var v uint64
			for j < len(out) {
				d := out[j]
				var dv uint64
				switch {
				case d >= '0' && d <= '9':
					dv = uint64(d - '0')
				case d >= 'a' && d <= 'f':
					dv = uint64(d-'a') + 10
				case d >= 'A' && d <= 'F':
					dv = uint64(d-'A') + 10
				default:
					goto done
				}
				v = v*base + dv
				j++
			}
		done:
			vals = append(vals, v)
			i = j
		case c == '|':
			// quoted symbol: skip
			j := i + 1
			for j < len(out) && out[j] != '|' {
				j++
			}
			i = j + 1
		default:
			if depth == 2 {
				if strings.HasPrefix(out[i:], "true") && (i+4 >= len(out) || out[i+4] == ')' || out[i+4] == ' ') && i > 0 && out[i-1] == ' ' {
					vals = append(vals, 1)
					i += 4
					continue
				}
				if strings.HasPrefix(out[i:], "false") && (i+5 >= len(out) || out[i+5] == ')' || out[i+5] == ' ') && i > 0 && out[i-1] == ' ' {
					vals = append(vals, 0)
					i += 5
					continue
				}
			}
			i++
		}
	}
	return vals
}

// DumpQuery renders pc ∧ extra as a standalone SMT-LIB2 script (for the
// cross-solver pass).
func DumpQuery(pc []*Term, extra *Term) string {
	var sb strings.Builder
	seen := map[int]bool{}
	var defs []*Term
	for _, c := range pc {
		collectDefs(c, seen, &defs)
	}
	if extra != nil {
		collectDefs(extra, seen, &defs)
	}
	for _, d := range defs {
		switch d.op {
		case "const":
		case "sym":
			fmt.Fprintf(&sb, "(declare-const %s %s)\n", d.ref(), sortStr(d.w))
		default:
			fmt.Fprintf(&sb, "(define-fun %s () %s %s)\n", d.ref(), sortStr(d.w), d.body())
		}
	}
	for _, c := range pc {
		fmt.Fprintf(&sb, "(assert %s)\n", c.ref())
	}
	if extra != nil {
		fmt.Fprintf(&sb, "(assert %s)\n", extra.ref())
	}
	sb.WriteString("(check-sat)\n")
	return sb.String()
}
