package main

// Abstract byte streams (a connection's inbound data as a sequence of frames of
// symbolic sizes) and the models of json.Encoder / json.Decoder on top of them.
// The real io.LimitedReader.Read and ctxConn.Read/Write sit between the decoder
// model and the harness connection and are executed from their SSA.

import (
	"encoding/json"
	"fmt"
	"go/types"
	"strings"
)

type streamItem struct {
	n       *Term
	end     *Term
	json    *JNode
	garbage bool
	textLen *Term  // length of the JSON text (the frame is: leading blanks, text, newline)
	inner   *JNode // split frames: a nested value preceded by blanks inside the text ...
	headLen int    // ... which starts after headLen bytes of text
	innerLen int
}

type StreamObj struct {
	id        int
	tag       string
	items     []streamItem
	total     *Term // sum of all item sizes
	delivered *Term // bytes handed to readers so far
	closed    bool
	owner     *DecData // the decoder that has been reading this stream
}

type EncData struct{ w IfaceV }
type DecData struct {
	r      IfaceV
	stream *StreamObj
	total  *Term
	next   int
	err    Value
	base    *Term // stream position at which this decoder started reading
	aligned bool  // its position relative to the frame sequence has been determined
	pending      *JNode // mid-stream start in front of a nested value: the value it is going to parse
	pendingEnd   *Term
	afterPending bool
}

func (e *Exec) streamOf(v Value) *StreamObj {
	i := e.concInt(v.(*Term), "stream handle")
	if i < 0 || i >= len(e.streams) {
		panic(e.unsupported("bad stream handle"))
	}
	return e.streams[i]
}

func registerStreams() {
	reg := func(name string, f intrinsic) { intrinsics[name] = f }
	reg("H.vStreamNew", func(e *Exec, th *Thread, a []Value) Value {
		s := &StreamObj{id: len(e.streams), tag: strArg(a[0]), total: IntC(0), delivered: IntC(0)}
		e.streams = append(e.streams, s)
		return IntC(int64(s.id))
	})
	reg("H.vStreamPut", func(e *Exec, th *Thread, a []Value) Value {
		s := e.streamOf(a[0])
		b, _ := a[1].(*BytesV)
		if b == nil || b.json == nil {
			panic(e.unsupported("vStreamPut of bytes without JSON tree"))
		}
		n := a[2].(*Term)
		s.total = BVBin("bvadd", s.total, n)
		it := streamItem{n: n, end: s.total, json: b.json}
		if txt, ok := b.json.wireText(); ok {
			it.textLen = IntC(int64(len(txt)))
			e.assume(BVCmp("bvslt", it.textLen, n))
		}
		s.items = append(s.items, it)
		return nil
	})
	// vStreamPutSplit(s, whole, inner, size): the frame of `whole` with its blanks placed in front of the nested
	// value `inner` (which must occur literally in the text of whole)
	reg("H.vStreamPutSplit", func(e *Exec, th *Thread, a []Value) Value {
		s := e.streamOf(a[0])
		whole, _ := a[1].(*BytesV)
		inner, _ := a[2].(*BytesV)
		if whole == nil || whole.json == nil || inner == nil || inner.json == nil {
			panic(e.unsupported("vStreamPutSplit of bytes without JSON tree"))
		}
		wt, ok1 := whole.json.wireText()
		it0, ok2 := inner.json.wireText()
		if !ok1 || !ok2 {
			panic(e.unsupported("vStreamPutSplit of symbolic envelopes"))
		}
		at := strings.Index(wt, it0)
		if at < 0 {
			panic(pathEnd{kind: "inconclusive", msg: "vStreamPutSplit: the inner value does not occur in the text of the outer one"})
		}
		n := a[3].(*Term)
		s.total = BVBin("bvadd", s.total, n)
		e.assume(BVCmp("bvslt", IntC(int64(len(wt))), n))
		s.items = append(s.items, streamItem{n: n, end: s.total, json: whole.json, textLen: IntC(int64(len(wt))),
			inner: inner.json, headLen: at, innerLen: len(it0)})
		return nil
	})
	reg("H.vStreamPutGarbage", func(e *Exec, th *Thread, a []Value) Value {
		s := e.streamOf(a[0])
		n := a[1].(*Term)
		s.total = BVBin("bvadd", s.total, n)
		s.items = append(s.items, streamItem{n: n, end: s.total, garbage: true})
		return nil
	})
	// a whole message that does not decode (message-framed connections)
	intrinsics["H.vStreamPutBadMsg"] = intrinsics["H.vStreamPutGarbage"]
	reg("H.vStreamClose", func(e *Exec, th *Thread, a []Value) Value {
		e.streamOf(a[0]).closed = true
		return nil
	})
	reg("H.vStreamAvail", func(e *Exec, th *Thread, a []Value) Value {
		s := e.streamOf(a[0])
		return BVBin("bvsub", s.total, s.delivered)
	})
	reg("H.vStreamEOF", func(e *Exec, th *Thread, a []Value) Value {
		s := e.streamOf(a[0])
		return And(BoolC(s.closed), Eq(s.total, s.delivered))
	})
	// vStreamRead(s, p, tag): deliver between 1 and min(len(p), available) bytes; 0 when nothing is available
	reg("H.vStreamRead", func(e *Exec, th *Thread, a []Value) Value {
		s := e.streamOf(a[0])
		var plen *Term
		switch p := a[1].(type) {
		case *AbufV:
			plen = p.n
		case *SliceV:
			if p.IsNil() {
				plen = IntC(0)
			} else {
				plen = IntC(int64(p.len))
			}
		default:
			panic(e.unsupported(fmt.Sprintf("vStreamRead into %T", a[1])))
		}
		tag := strArg(a[2])
		avail := BVBin("bvsub", s.total, s.delivered)
		e.lastRead = s
		if !e.branch(And(BVCmp("bvslt", IntC(0), avail), BVCmp("bvslt", IntC(0), plen))) {
			return IntC(0)
		}
		n := e.fresh("nd."+tag, 64)
		e.nondets = append(e.nondets, NondetRec{Tag: tag, Kind: "int", terms: []*Term{n}})
		e.assume(BVCmp("bvsle", IntC(1), n))
		e.assume(BVCmp("bvsle", n, avail))
		e.assume(BVCmp("bvsle", n, plen))
		s.delivered = BVBin("bvadd", s.delivered, n)
		return n
	})
	// vStreamReadAll(s, p): deliver min(len(p), available) bytes (used to bound fragmentation)
	reg("H.vStreamReadAll", func(e *Exec, th *Thread, a []Value) Value {
		s := e.streamOf(a[0])
		var plen *Term
		switch p := a[1].(type) {
		case *AbufV:
			plen = p.n
		case *SliceV:
			plen = IntC(0)
			if !p.IsNil() {
				plen = IntC(int64(p.len))
			}
		default:
			panic(e.unsupported(fmt.Sprintf("vStreamReadAll into %T", a[1])))
		}
		avail := BVBin("bvsub", s.total, s.delivered)
		e.lastRead = s
		n := Ite(BVCmp("bvslt", plen, avail), plen, avail)
		s.delivered = BVBin("bvadd", s.delivered, n)
		return n
	})
	reg("H.vAbuf", func(e *Exec, th *Thread, a []Value) Value {
		return &AbufV{n: a[0].(*Term)}
	})

	// ---- json.Encoder / json.Decoder ----------------------------------------------
	reg("encoding/json.NewEncoder", func(e *Exec, th *Thread, a []Value) Value {
		return PtrV{obj: e.newObj(&EncData{w: a[0].(IfaceV)}, nil, "json.Encoder")}
	})
	reg("(*encoding/json.Encoder).Encode", func(e *Exec, th *Thread, a []Value) Value {
		p := a[0].(PtrV)
		if p.IsNil() {
			e.raise(th, "nil-dereference", nil)
		}
		enc := p.obj.val.(*EncData)
		iv := a[1].(IfaceV)
		var node *JNode
		if iv.t == nil {
			node = &JNode{kind: jNull}
		} else {
			n, err := e.marshal(th, iv.v, iv.t, nil, 0)
			if !isNilErr(err) {
				return err
			}
			node = n
		}
		frame := &BytesV{json: node}
		e.jsonLen(frame)
		wm := e.methodByName(enc.w.t, "Write")
		if wm == nil {
			panic(e.unsupported("encoder writer without Write"))
		}
		r := e.invoke(th, enc.w, wm, []Value{frame}).(TupleV)
		return r[1]
	})
	reg("encoding/json.NewDecoder", func(e *Exec, th *Thread, a []Value) Value {
		return PtrV{obj: e.newObj(&DecData{r: a[0].(IfaceV), total: IntC(0), err: IfaceV{}}, nil, "json.Decoder")}
	})
	reg("(*encoding/json.Decoder).Decode", func(e *Exec, th *Thread, a []Value) Value {
		p := a[0].(PtrV)
		if p.IsNil() {
			e.raise(th, "nil-dereference", nil)
		}
		d := p.obj.val.(*DecData)
		return e.decoderDecode(th, d, a[1].(IfaceV), false)
	})
	_ = types.Typ
}

// decoderDecode: one Decode call of a json.Decoder model. In message mode (ws: the reader is a
// message-framed connection, one stream item per message) a value is handed over once its whole frame
// has arrived, an undecodable message fails that call only, and every read error is kept.
func (e *Exec) decoderDecode(th *Thread, d *DecData, target IfaceV, ws bool) Value {
	{
		if !isNilErr(d.err) {
			return d.err
		}
		if target.t == nil || !isPtrKind(target.t) || target.v.(PtrV).IsNil() {
			return e.jsonErr("Decode(non-pointer or nil)")
		}
		rm := e.methodByName(d.r.t, "Read")
		dst := rv{isPtrVal: true, ptr: target.v.(PtrV), t: target.t}
		for iter := 0; iter < e.x.maxUnroll; iter++ {
			if d.stream != nil && !d.aligned {
				// A decoder that starts reading a stream another decoder had been consuming: where in the
				// frame sequence does it start? (what the first one had buffered beyond its last value is lost)
				if r, done := e.alignDecoder(th, d, dst); done {
					return r
				}
			}
			if d.stream != nil && d.aligned && d.pending != nil {
				// mid-frame start inside the blank region in front of a nested value: that value is what it parses
				pos := BVBin("bvadd", d.base, d.total)
				if e.branch(BVCmp("bvsle", d.pendingEnd, pos)) {
					n := d.pending
					d.pending = nil
					d.afterPending = true
					return e.decode(th, n, dst, 0)
				}
			} else if d.stream != nil && d.aligned && d.afterPending {
				// the rest of the torn frame does not parse
				d.err = e.jsonErr("invalid character after top-level value (decoder started mid-stream)")
				return d.err
			} else if d.stream != nil && d.aligned && d.next < len(d.stream.items) {
				it := d.stream.items[d.next]
				// a JSON value is complete with its last byte; the delimiter that follows is not needed
				need := BVBin("bvsub", it.end, IntC(1))
				if it.garbage {
					// undecodable bytes: the error is raised as soon as the first offending byte is seen
					need = BVBin("bvadd", BVBin("bvsub", it.end, it.n), IntC(1))
				}
				if ws {
					need = it.end
				}
				pos := BVBin("bvadd", d.base, d.total)
				if e.branch(BVCmp("bvsle", need, pos)) {
					d.next++
					if it.garbage {
						if ws {
							return e.jsonErr("invalid character looking for beginning of value")
						}
						d.err = e.jsonErr("invalid character looking for beginning of value")
						return d.err
					}
					return e.decode(th, it.json, dst, 0)
				}
			}
			// free space of the decoder's buffer: never the limiting factor (the connection is free to
			// deliver any smaller amount, so a smaller buffer adds no behaviour)
			q := IntC(1 << 20)
			e.lastRead = nil
			r := e.invoke(th, d.r, rm, []Value{&AbufV{n: q}}).(TupleV)
			n := r[0].(*Term)
			if d.stream == nil && e.lastRead != nil {
				d.stream = e.lastRead
				if d.stream.owner == nil {
					d.base = IntC(0)
					d.aligned = true
				} else if d.stream.owner != d {
					// everything the stream handed out before this read went to the previous decoder
					d.base = BVBin("bvsub", d.stream.delivered, n)
				}
				d.stream.owner = d
			}
			if !isNilErr(r[1]) {
				// bytes of an incomplete value already consumed: EOF becomes ErrUnexpectedEOF
				start := IntC(0)
				if d.stream != nil && d.aligned && d.next > 0 && d.next <= len(d.stream.items) {
					start = d.stream.items[d.next-1].end
				}
				pos := d.total
				if d.base != nil {
					pos = BVBin("bvadd", d.base, d.total)
				}
				if ws && e.errorsIs(th, r[1], e.sentinel("io.EOF")).IsTrue() {
					d.err = e.mkErr("websocket: close 1006 (abnormal closure): unexpected EOF", nil)
				} else if e.errorsIs(th, r[1], e.sentinel("io.EOF")).IsTrue() && e.branch(BVCmp("bvslt", start, pos)) {
					d.err = e.sentinel("io.ErrUnexpectedEOF")
				} else {
					d.err = r[1]
				}
				return d.err
			}
			d.total = BVBin("bvadd", d.total, n)
		}
		panic(pathEnd{kind: "inconclusive", msg: "unwinding bound exceeded in json.Decoder model (reads per Decode)"})
	}
}


// ---- crypto/tls: the connection is wrapped in a marked stub ---------------------------------

type TLSData struct {
	inner  IfaceV
	server bool
	shook  bool
}

func (e *Exec) tlsOf(v Value) *TLSData {
	p, ok := v.(PtrV)
	if !ok || p.obj == nil {
		return nil
	}
	d, _ := p.obj.val.(*TLSData)
	return d
}

// tlsMethod delegates to the wrapped connection, telling it (when it wants to know) that the call came through TLS.
func (e *Exec) tlsMethod(th *Thread, d *TLSData, name string, args []Value) Value {
	mark := e.methodByName(d.inner.t, "VMarkTLS")
	switch name {
	case "Handshake":
		if hk := e.methodByName(d.inner.t, "VTLSHandshake"); hk != nil {
			e.invoke(th, d.inner, hk, nil)
		}
		if e.branch(e.fresh("tls.handshake-fails", 0)) {
			return e.mkErr("tls: handshake failure", nil)
		}
		d.shook = true
		return IfaceV{}
	case "Read", "Write":
		if mark != nil {
			e.invoke(th, d.inner, mark, []Value{tTrue})
		}
		r := e.invoke(th, d.inner, e.methodByName(d.inner.t, name), args)
		if mark != nil {
			e.invoke(th, d.inner, mark, []Value{tFalse})
		}
		return r
	}
	m := e.methodByName(d.inner.t, name)
	if m == nil {
		panic(e.unsupported("tls.Conn method " + name))
	}
	return e.invoke(th, d.inner, m, args)
}

func registerTLS() {
	mk := func(server bool) intrinsic {
		return func(e *Exec, th *Thread, a []Value) Value {
			inner, _ := a[0].(IfaceV)
			if inner.t == nil {
				e.raise(th, "nil-dereference", nil)
			}
			return PtrV{obj: e.newObj(&TLSData{inner: inner, server: server}, nil, "tls.Conn")}
		}
	}
	intrinsics["crypto/tls.Server"] = mk(true)
	intrinsics["crypto/tls.Client"] = mk(false)
	for _, name := range []string{"Handshake", "Read", "Write", "Close", "SetDeadline", "SetReadDeadline", "SetWriteDeadline", "LocalAddr", "RemoteAddr"} {
		name := name
		intrinsics["(*crypto/tls.Conn)."+name] = func(e *Exec, th *Thread, a []Value) Value {
			d := e.tlsOf(a[0])
			if d == nil {
				e.raise(th, "nil-dereference", nil)
			}
			return e.tlsMethod(th, d, name, a[1:])
		}
	}
}


// alignDecoder decides where a decoder that starts mid-stream finds itself. Frames are, natively,
// `blanks text newline` (plain) or `head blanks inner rest newline` (split): starting inside leading
// blanks parses the frame normally; inside the blanks in front of a nested value parses that value;
// anywhere else inside a text is a syntax error.
func (e *Exec) alignDecoder(th *Thread, d *DecData, dst rv) (Value, bool) {
	s := d.stream
	n := len(s.items)
	conds := make([]*Term, 0, n+1)
	starts := make([]*Term, n)
	for i, it := range s.items {
		starts[i] = BVBin("bvsub", it.end, it.n)
		conds = append(conds, And(BVCmp("bvsle", starts[i], d.base), BVCmp("bvslt", d.base, it.end)))
	}
	conds = append(conds, BVCmp("bvsle", s.total, d.base))
	k := e.choose("decoder-start", n+1, conds, true)
	d.aligned = true
	if k == n {
		d.next = n
		return nil, false
	}
	it := s.items[k]
	o := BVBin("bvsub", d.base, starts[k])
	syntax := func() (Value, bool) {
		d.err = e.jsonErr("invalid character (decoder started in the middle of a value)")
		return d.err, true
	}
	if it.garbage {
		return syntax()
	}
	if it.textLen == nil {
		panic(e.unsupported("mid-stream decoder over a frame of unknown text length"))
	}
	lead := BVBin("bvsub", BVBin("bvsub", it.n, it.textLen), IntC(1))
	last := BVBin("bvsub", it.n, IntC(1))
	if it.inner == nil {
		// plain frame: [0, lead] -> parses this frame; [n-1] -> only the delimiter is left; else syntax error
		switch e.choose("decoder-offset", 3, []*Term{BVCmp("bvsle", o, lead), Eq(o, last), And(BVCmp("bvslt", lead, o), BVCmp("bvslt", o, last))}, true) {
		case 0:
			d.next = k
		case 1:
			d.next = k + 1
		default:
			return syntax()
		}
		return nil, false
	}
	// split frame: text = head(headLen) blanks(lead) inner rest; no leading blanks in front of the text
	h := IntC(int64(it.headLen))
	innerStart := BVBin("bvadd", h, lead)
	switch e.choose("decoder-offset", 4, []*Term{Eq(o, IntC(0)), Eq(o, last),
		And(BVCmp("bvsle", h, o), BVCmp("bvsle", o, innerStart)),
		And(BVCmp("bvslt", IntC(0), o), BVCmp("bvslt", o, last), Not(And(BVCmp("bvsle", h, o), BVCmp("bvsle", o, innerStart))))}, true) {
	case 0:
		d.next = k
	case 1:
		d.next = k + 1
	case 2:
		d.pending = it.inner
		d.pendingEnd = BVBin("bvadd", starts[k], BVBin("bvadd", innerStart, IntC(int64(it.innerLen))))
		d.next = k + 1
	default:
		return syntax()
	}
	return nil, false
}

// wireText: the exact text encoding/json produces for a fully concrete tree (struct field order as built,
// Go's string escaping); ok=false when something is symbolic.
func (n *JNode) wireText() (string, bool) {
	switch n.kind {
	case jObj:
		var ps []string
		for i := range n.keys {
			c := n.cond(i)
			if !c.IsConst() {
				return "", false
			}
			if c.IsFalse() {
				continue
			}
			k, ok := n.keys[i].Concrete()
			if !ok {
				return "", false
			}
			v, ok := n.vals[i].wireText()
			if !ok {
				return "", false
			}
			kb, _ := json.Marshal(k)
			ps = append(ps, string(kb)+":"+v)
		}
		return "{" + strings.Join(ps, ",") + "}", true
	case jArr:
		var ps []string
		for _, c := range n.arr {
			v, ok := c.wireText()
			if !ok {
				return "", false
			}
			ps = append(ps, v)
		}
		return "[" + strings.Join(ps, ",") + "]", true
	}
	return n.canon()
}
