package main

// Abstract byte streams (a connection's inbound data as a sequence of frames of
// symbolic sizes) and the models of json.Encoder / json.Decoder on top of them.
// The real io.LimitedReader.Read and ctxConn.Read/Write sit between the decoder
// model and the harness connection and are executed from their SSA.

import (
	"fmt"
	"go/types"
)

type streamItem struct {
	n       *Term
	end     *Term
	json    *JNode
	garbage bool
}

type StreamObj struct {
	id        int
	tag       string
	items     []streamItem
	total     *Term // sum of all item sizes
	delivered *Term // bytes handed to readers so far
	closed    bool
	owner     *DecData // the decoder that has been reading this stream
}

type EncData struct{ w IfaceV }
type DecData struct {
	r      IfaceV
	stream *StreamObj
	total  *Term
	next   int
	err    Value
	torn   bool // bound to a stream another decoder had already been reading: it starts mid-stream
}

func (e *Exec) streamOf(v Value) *StreamObj {
	i := e.concInt(v.(*Term), "stream handle")
	if i < 0 || i >= len(e.streams) {
		panic(e.unsupported("bad stream handle"))
	}
	return e.streams[i]
}

func registerStreams() {
	reg := func(name string, f intrinsic) { intrinsics[name] = f }
	reg("H.vStreamNew", func(e *Exec, th *Thread, a []Value) Value {
		s := &StreamObj{id: len(e.streams), tag: strArg(a[0]), total: IntC(0), delivered: IntC(0)}
		e.streams = append(e.streams, s)
		return IntC(int64(s.id))
	})
	reg("H.vStreamPut", func(e *Exec, th *Thread, a []Value) Value {
		s := e.streamOf(a[0])
		b, _ := a[1].(*BytesV)
		if b == nil || b.json == nil {
			panic(e.unsupported("vStreamPut of bytes without JSON tree"))
		}
		n := a[2].(*Term)
		s.total = BVBin("bvadd", s.total, n)
		s.items = append(s.items, streamItem{n: n, end: s.total, json: b.json})
		return nil
	})
	reg("H.vStreamPutGarbage", func(e *Exec, th *Thread, a []Value) Value {
		s := e.streamOf(a[0])
		n := a[1].(*Term)
		s.total = BVBin("bvadd", s.total, n)
		s.items = append(s.items, streamItem{n: n, end: s.total, garbage: true})
		return nil
	})
	reg("H.vStreamClose", func(e *Exec, th *Thread, a []Value) Value {
		e.streamOf(a[0]).closed = true
		return nil
	})
	reg("H.vStreamAvail", func(e *Exec, th *Thread, a []Value) Value {
		s := e.streamOf(a[0])
		return BVBin("bvsub", s.total, s.delivered)
	})
	reg("H.vStreamEOF", func(e *Exec, th *Thread, a []Value) Value {
		s := e.streamOf(a[0])
		return And(BoolC(s.closed), Eq(s.total, s.delivered))
	})
	// vStreamRead(s, p, tag): deliver between 1 and min(len(p), available) bytes; 0 when nothing is available
	reg("H.vStreamRead", func(e *Exec, th *Thread, a []Value) Value {
		s := e.streamOf(a[0])
		var plen *Term
		switch p := a[1].(type) {
		case *AbufV:
			plen = p.n
		case *SliceV:
			if p.IsNil() {
				plen = IntC(0)
			} else {
				plen = IntC(int64(p.len))
			}
		default:
			panic(e.unsupported(fmt.Sprintf("vStreamRead into %T", a[1])))
		}
		tag := strArg(a[2])
		avail := BVBin("bvsub", s.total, s.delivered)
		e.lastRead = s
		if !e.branch(And(BVCmp("bvslt", IntC(0), avail), BVCmp("bvslt", IntC(0), plen))) {
			return IntC(0)
		}
		n := e.fresh("nd."+tag, 64)
		e.nondets = append(e.nondets, NondetRec{Tag: tag, Kind: "int", terms: []*Term{n}})
		e.assume(BVCmp("bvsle", IntC(1), n))
		e.assume(BVCmp("bvsle", n, avail))
		e.assume(BVCmp("bvsle", n, plen))
		s.delivered = BVBin("bvadd", s.delivered, n)
		return n
	})
	// vStreamReadAll(s, p): deliver min(len(p), available) bytes (used to bound fragmentation)
	reg("H.vStreamReadAll", func(e *Exec, th *Thread, a []Value) Value {
		s := e.streamOf(a[0])
		var plen *Term
		switch p := a[1].(type) {
		case *AbufV:
			plen = p.n
		case *SliceV:
			plen = IntC(0)
			if !p.IsNil() {
				plen = IntC(int64(p.len))
			}
		default:
			panic(e.unsupported(fmt.Sprintf("vStreamReadAll into %T", a[1])))
		}
		avail := BVBin("bvsub", s.total, s.delivered)
		e.lastRead = s
		n := Ite(BVCmp("bvslt", plen, avail), plen, avail)
		s.delivered = BVBin("bvadd", s.delivered, n)
		return n
	})
	reg("H.vAbuf", func(e *Exec, th *Thread, a []Value) Value {
		return &AbufV{n: a[0].(*Term)}
	})

	// ---- json.Encoder / json.Decoder ----------------------------------------------
	reg("encoding/json.NewEncoder", func(e *Exec, th *Thread, a []Value) Value {
		return PtrV{obj: e.newObj(&EncData{w: a[0].(IfaceV)}, nil, "json.Encoder")}
	})
	reg("(*encoding/json.Encoder).Encode", func(e *Exec, th *Thread, a []Value) Value {
		p := a[0].(PtrV)
		if p.IsNil() {
			e.raise(th, "nil-dereference", nil)
		}
		enc := p.obj.val.(*EncData)
		iv := a[1].(IfaceV)
		var node *JNode
		if iv.t == nil {
			node = &JNode{kind: jNull}
		} else {
			n, err := e.marshal(th, iv.v, iv.t, nil, 0)
			if !isNilErr(err) {
				return err
			}
			node = n
		}
		frame := &BytesV{json: node}
		e.jsonLen(frame)
		wm := e.methodByName(enc.w.t, "Write")
		if wm == nil {
			panic(e.unsupported("encoder writer without Write"))
		}
		r := e.invoke(th, enc.w, wm, []Value{frame}).(TupleV)
		return r[1]
	})
	reg("encoding/json.NewDecoder", func(e *Exec, th *Thread, a []Value) Value {
		return PtrV{obj: e.newObj(&DecData{r: a[0].(IfaceV), total: IntC(0), err: IfaceV{}}, nil, "json.Decoder")}
	})
	reg("(*encoding/json.Decoder).Decode", func(e *Exec, th *Thread, a []Value) Value {
		p := a[0].(PtrV)
		if p.IsNil() {
			e.raise(th, "nil-dereference", nil)
		}
		d := p.obj.val.(*DecData)
		if !isNilErr(d.err) {
			return d.err
		}
		target := a[1].(IfaceV)
		if target.t == nil || !isPtrKind(target.t) || target.v.(PtrV).IsNil() {
			return e.jsonErr("Decode(non-pointer or nil)")
		}
		rm := e.methodByName(d.r.t, "Read")
		for iter := 0; iter < e.x.maxUnroll; iter++ {
			if d.stream != nil && d.next < len(d.stream.items) {
				it := d.stream.items[d.next]
				// a JSON value is complete with its last byte; the delimiter that follows is not needed
				need := BVBin("bvsub", it.end, IntC(1))
				if it.garbage {
					// undecodable bytes: the error is raised as soon as the first offending byte is seen
					need = BVBin("bvadd", BVBin("bvsub", it.end, it.n), IntC(1))
				}
				if e.branch(BVCmp("bvsle", need, d.total)) {
					d.next++
					if it.garbage {
						d.err = e.jsonErr("invalid character looking for beginning of value")
						return d.err
					}
					return e.decode(th, it.json, rv{isPtrVal: true, ptr: target.v.(PtrV), t: target.t}, 0)
				}
			}
			// free space of the decoder's buffer: never the limiting factor (the connection is free to
			// deliver any smaller amount, so a smaller buffer adds no behaviour)
			q := IntC(1 << 20)
			e.lastRead = nil
			r := e.invoke(th, d.r, rm, []Value{&AbufV{n: q}}).(TupleV)
			if d.stream == nil && e.lastRead != nil {
				d.stream = e.lastRead
				if d.stream.owner != nil && d.stream.owner != d {
					// A second decoder on a stream that was already being decoded: whatever the first one had
					// buffered is lost and this one starts in the middle of the data. What it then parses is
					// not determined by the frames any more.
					d.torn = true
				}
				d.stream.owner = d
			}
			n := r[0].(*Term)
			if d.torn && isNilErr(r[1]) {
				if e.branch(e.fresh("torn.syntax-error", 0)) {
					d.err = e.jsonErr("invalid character (decoder started mid-stream)")
					return d.err
				}
				// ... or it happens to find something that parses: an envelope nobody sent
				fab, _ := parseJSONText(`{"id":"fabricated-by-mid-stream-decoder","event":"received"}`)
				return e.decode(th, fab, rv{isPtrVal: true, ptr: target.v.(PtrV), t: target.t}, 0)
			}
			if !isNilErr(r[1]) {
				// bytes of an incomplete value already consumed: EOF becomes ErrUnexpectedEOF
				start := IntC(0)
				if d.stream != nil && d.next > 0 {
					start = d.stream.items[d.next-1].end
				}
				if e.errorsIs(th, r[1], e.sentinel("io.EOF")).IsTrue() && e.branch(BVCmp("bvslt", start, d.total)) {
					d.err = e.sentinel("io.ErrUnexpectedEOF")
				} else {
					d.err = r[1]
				}
				return d.err
			}
			d.total = BVBin("bvadd", d.total, n)
		}
		panic(pathEnd{kind: "inconclusive", msg: "unwinding bound exceeded in json.Decoder model (reads per Decode)"})
	})
	_ = types.Typ
}
