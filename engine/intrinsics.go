package main

// Stubs: the harness API and the models of everything outside lime-go.

import (
	"encoding/base64"
	"fmt"
	"os"
	"go/types"
	"strings"

	"golang.org/x/tools/go/ssa"
)

type intrinsic func(e *Exec, th *Thread, args []Value) Value

var intrinsics map[string]intrinsic
var intrinsicsLate []func()

func (e *Exec) lookupIntrinsic(fn *ssa.Function) intrinsic {
	name := fn.String()
	if fn.Pkg == e.x.pkg {
		// harness API lives in the package under test
		if in, ok := intrinsics["H."+fn.Name()]; ok && fn.Signature.Recv() == nil {
			return in
		}
		return nil
	}
	if in, ok := intrinsics[name]; ok {
		return in
	}
	if fn.Pkg != nil && fn.Pkg != e.x.pkg && isInitFunc(fn) {
		return func(e *Exec, th *Thread, args []Value) Value { return nil }
	}
	return nil
}

func strArg(v Value) string {
	s, ok := v.(*StrV).Concrete()
	if !ok {
		panic(pathEnd{kind: "inconclusive", msg: "harness tag/label must be a constant string"})
	}
	return s
}

func (e *Exec) lookupType(pkgPath, name string) types.Type {
	k := pkgPath + "." + name
	if t, ok := e.typeCache[k]; ok {
		return t
	}
	for _, p := range e.x.prog.AllPackages() {
		if p.Pkg.Path() == pkgPath {
			o := p.Pkg.Scope().Lookup(name)
			if o != nil {
				e.typeCache[k] = o.Type()
				return o.Type()
			}
		}
	}
	panic(e.unsupported("type " + k + " not found"))
}

func (e *Exec) errorIface(d *ErrData) IfaceV {
	t := types.NewPointer(e.lookupType("errors", "errorString"))
	return IfaceV{t: t, v: PtrV{obj: e.newObj(d, nil, "err:"+d.name)}}
}

func (e *Exec) sentinel(name string) Value {
	if v, ok := e.sentinels[name]; ok {
		return v
	}
	v := e.errorIface(&ErrData{name: name})
	e.sentinels[name] = v
	return v
}

func (e *Exec) foreignGlobal(g *ssa.Global, et types.Type) Value {
	full := g.Pkg.Pkg.Path() + "." + g.Name()
	switch full {
	case "io.EOF", "context.Canceled", "context.DeadlineExceeded", "net.ErrClosed", "io.ErrUnexpectedEOF", "io.ErrShortWrite", "io.ErrClosedPipe", "io.ErrNoProgress", "io.ErrShortBuffer":
		return e.sentinel(full)
	case "encoding/base64.StdEncoding":
		return PtrV{obj: e.newObj(&StructV{}, nil, "base64.StdEncoding")}
	}
	if types.Identical(et, types.Universe.Lookup("error").Type()) {
		return e.sentinel(full)
	}
	return e.zero(et)
}

func (e *Exec) errMethod(th *Thread, d *ErrData, self IfaceV, name string, args []Value) Value {
	switch name {
	case "Error":
		return ConcStr(d.name)
	case "Unwrap":
		if d.wrapped == nil {
			return IfaceV{}
		}
		return d.wrapped
	case "Timeout", "Temporary":
		return BoolC(d.timeout)
	}
	panic(e.unsupported("error method " + name))
}

func (e *Exec) errorsIs(th *Thread, err, target Value) *Term {
	for depth := 0; depth < 20; depth++ {
		iv, _ := err.(IfaceV)
		if iv.t == nil {
			return tFalse
		}
		if c := e.valueEq(iv, target); c.IsTrue() {
			return tTrue
		}
		// unwrap
		if p, ok := iv.v.(PtrV); ok && p.obj != nil {
			if d, ok := p.obj.val.(*ErrData); ok {
				if d.wrapped == nil {
					return tFalse
				}
				err = d.wrapped
				continue
			}
		}
		// user-defined error with Unwrap method?
		ms := e.x.prog.MethodSets.MethodSet(iv.t)
		var unwrap *ssa.Function
		for i := 0; i < ms.Len(); i++ {
			if ms.At(i).Obj().Name() == "Unwrap" {
				unwrap = e.x.prog.MethodValue(ms.At(i))
			}
		}
		if unwrap == nil {
			return tFalse
		}
		err = e.callFn(th, unwrap, []Value{iv.v})
	}
	return tFalse
}

// sprintf handles constant formats with %v %s %d %q %w verbs.
func (e *Exec) sprintf(th *Thread, format Value, rest Value) (*StrV, Value) {
	f, ok := format.(*StrV).Concrete()
	if !ok {
		panic(e.unsupported("Sprintf with symbolic format"))
	}
	var argv []Value
	if sl, ok := rest.(*SliceV); ok && !sl.IsNil() {
		for i := 0; i < sl.len; i++ {
			argv = append(argv, e.load(PtrV{obj: sl.obj, path: []int{sl.off + i}}))
		}
	}
	out := ConcStr("")
	var wrapped Value
	ai := 0
	i := 0
	lit := func(s string) { out = e.strConcat(out, ConcStr(s)) }
	for i < len(f) {
		if f[i] != '%' {
			j := i
			for j < len(f) && f[j] != '%' {
				j++
			}
			lit(f[i:j])
			i = j
			continue
		}
		if i+1 >= len(f) {
			lit("%")
			break
		}
		verb := f[i+1]
		i += 2
		if verb == '%' {
			lit("%")
			continue
		}
		if ai >= len(argv) {
			lit("%!" + string(verb) + "(MISSING)")
			continue
		}
		a := argv[ai]
		ai++
		if verb == 'w' {
			wrapped = a
		}
		out = e.strConcat(out, e.formatArg(th, a, verb))
	}
	return out, wrapped
}

func (e *Exec) formatArg(th *Thread, a Value, verb byte) *StrV {
	iv, ok := a.(IfaceV)
	if !ok || iv.t == nil {
		return ConcStr("<nil>")
	}
	// error / Stringer
	if p, ok := iv.v.(PtrV); ok && p.obj != nil {
		if d, ok := p.obj.val.(*ErrData); ok {
			return ConcStr(d.name)
		}
	}
	if verb != 'd' && verb != 'q' {
		ms := e.x.prog.MethodSets.MethodSet(iv.t)
		for _, mname := range []string{"Error", "String"} {
			for i := 0; i < ms.Len(); i++ {
				sel := ms.At(i)
				if sel.Obj().Name() == mname && sel.Type().(*types.Signature).Params().Len() == 0 {
					if p, ok := iv.v.(PtrV); ok && p.IsNil() {
						return ConcStr("<nil>")
					}
					fn := e.x.prog.MethodValue(sel)
					if fn != nil {
						r := e.callFn(th, fn, []Value{iv.v})
						if s, ok := r.(*StrV); ok {
							return s
						}
					}
				}
			}
		}
	}
	switch v := iv.v.(type) {
	case *StrV:
		return v
	case *Term:
		if v.IsConst() {
			if v.w == 0 {
				return ConcStr(fmt.Sprint(v.val == 1))
			}
			return ConcStr(fmt.Sprint(v.SVal()))
		}
		return ConcStr("<num>")
	}
	return ConcStr("<val>")
}

func (e *Exec) mkErr(name string, wrapped Value) IfaceV {
	return e.errorIface(&ErrData{name: name, wrapped: wrapped})
}

func truncName(s *StrV) string {
	if c, ok := s.Concrete(); ok {
		return c
	}
	return "<formatted error>"
}

func init() {
	intrinsics = map[string]intrinsic{
		// ---- harness API -------------------------------------------------
		"H.nondetBool": func(e *Exec, th *Thread, a []Value) Value {
			tag := strArg(a[0])
			t := e.fresh("nd."+tag, 0)
			e.nondets = append(e.nondets, NondetRec{Tag: tag, Kind: "bool", terms: []*Term{t}})
			return t
		},
		"H.nondetInt": func(e *Exec, th *Thread, a []Value) Value {
			tag := strArg(a[0])
			t := e.fresh("nd."+tag, 64)
			e.nondets = append(e.nondets, NondetRec{Tag: tag, Kind: "int", terms: []*Term{t}})
			return t
		},
		"H.nondetByte": func(e *Exec, th *Thread, a []Value) Value {
			tag := strArg(a[0])
			t := e.fresh("nd."+tag, 8)
			e.nondets = append(e.nondets, NondetRec{Tag: tag, Kind: "byte", terms: []*Term{t}})
			return t
		},
		"H.nondetRange": func(e *Exec, th *Thread, a []Value) Value {
			tag := strArg(a[0])
			lo := e.concInt(a[1].(*Term), "nondetRange lo")
			hi := e.concInt(a[2].(*Term), "nondetRange hi")
			if hi < lo {
				panic(pathEnd{kind: "infeasible"})
			}
			k := e.choose("nd:"+tag, hi-lo+1, nil, false)
			e.nondets = append(e.nondets, NondetRec{Tag: tag, Kind: "choice", conc: int64(lo + k)})
			return IntC(int64(lo + k))
		},
		"H.nondetChoice": func(e *Exec, th *Thread, a []Value) Value {
			tag := strArg(a[0])
			n := e.concInt(a[1].(*Term), "nondetChoice n")
			k := e.choose("nd:"+tag, n, nil, false)
			e.nondets = append(e.nondets, NondetRec{Tag: tag, Kind: "choice", conc: int64(k)})
			return IntC(int64(k))
		},
		"H.nondetString": func(e *Exec, th *Thread, a []Value) Value {
			tag := strArg(a[0])
			cap := e.concInt(a[1].(*Term), "nondetString cap")
			s, terms := e.freshStr("nd."+tag, cap)
			e.nondets = append(e.nondets, NondetRec{Tag: tag, Kind: "string", terms: terms, cap: cap})
			return s
		},
		"H.vParam": func(e *Exec, th *Thread, a []Value) Value {
			name := strArg(a[0])
			def := e.concInt(a[1].(*Term), "vParam default")
			if v, ok := e.x.params[name]; ok {
				return IntC(int64(v))
			}
			return IntC(int64(def))
		},
		"H.vAssume": func(e *Exec, th *Thread, a []Value) Value {
			c := a[0].(*Term)
			if !c.IsTrue() {
				e.flushPending()
			}
			e.assume(c)
			if !c.IsTrue() && !e.feasibleNow() {
				panic(pathEnd{kind: "infeasible"})
			}
			return nil
		},
		"H.vAssert": func(e *Exec, th *Thread, a []Value) Value {
			c := a[0].(*Term)
			label := strArg(a[1])
			e.assertsSeen++
			e.trace = append(e.trace, "A:"+label)
			if c.IsTrue() {
				e.x.nVerdict++
				e.x.nVerdictUnsat++
				return nil
			}
			if !c.IsFalse() && !e.x.eager {
				key, _ := e.memoKey()
				e.pending = append(e.pending, pendingAssert{label: label, cond: c, site: e.siteOf(th), key: key, trace: append([]string{}, e.trace...)})
				return nil
			}
			e.flushPending()
			if os.Getenv("GOSMT_DEBUG") != "" && c.IsFalse() {
				fmt.Fprintf(os.Stderr, "  concrete assertion failure %s; decisions=%v\n", label, e.x.prefix)
				for _, t := range e.threads {
					fmt.Fprintf(os.Stderr, "    thread %d %s state=%d blockedOn=%s\n", t.id, t.name, t.state, t.blockedOn)
				}
			}
			if e.verdict(label, e.siteOf(th), Not(c)) {
				e.trace = append(e.trace, "F:"+label)
				// continue on the side where the assertion holds
				if c.IsFalse() {
					// a concrete failure: keep going like the native run does, so that later assertions are seen too
					return nil
				}
				e.assume(c)
				if !e.feasibleNow() {
					panic(pathEnd{kind: "violation", msg: label})
				}
			}
			return nil
		},
		"H.vReach": func(e *Exec, th *Thread, a []Value) Value {
			e.reachMark(strArg(a[0]))
			return nil
		},
		"H.vExpectPanic": func(e *Exec, th *Thread, a []Value) (ret Value) {
			e.expectPanic++
			depth := len(th.stack)
			defer func() {
				e.expectPanic--
				if r := recover(); r != nil {
					if _, ok := r.(goPanic); ok {
						th.stack = th.stack[:depth]
						ret = tTrue
						return
					}
					panic(r)
				}
			}()
			e.callValue(th, a[0], nil)
			return tFalse
		},
		"H.vNow": func(e *Exec, th *Thread, a []Value) Value {
			// harness-side clock readings are part of the witness (the native replay runs on this virtual clock)
			t := e.clockRead()
			e.nondets = append(e.nondets, NondetRec{Tag: "clock", Kind: "int", terms: []*Term{t}})
			return t
		},
		"H.vQuiesce": func(e *Exec, th *Thread, a []Value) Value {
			// let every other thread run until none can
			th.state = tsBlocked
			th.blockedOn = "vQuiesce"
			th.ready = func() bool {
				for _, t := range e.threads {
					if t != th && t.state == tsRunnable {
						return false
					}
					if t != th && t.state == tsBlocked && t.ready != nil && t.ready() {
						return false
					}
				}
				return true
			}
			e.switchFrom(th)
			th.state = tsRunnable
			th.ready = nil
			return nil
		},
		// vSettle: like vQuiesce, but armed timers fire too (repeatedly) until nothing can happen any more
		"H.vSettle": func(e *Exec, th *Thread, a []Value) Value {
			for {
				th.state = tsBlocked
				th.blockedOn = "vSettle"
				th.ready = func() bool {
					for _, t := range e.threads {
						if t != th && t.state == tsRunnable {
							return false
						}
						if t != th && t.state == tsBlocked && t.ready != nil && t.ready() {
							return false
						}
					}
					return true
				}
				e.switchFrom(th)
				th.state = tsRunnable
				th.ready = nil
				if !e.fireTimer() {
					if os.Getenv("GOSMT_DEBUG") != "" {
						for _, t := range e.threads {
							fmt.Fprintf(os.Stderr, "  settle: thread %d %s state=%d blockedOn=%s\n", t.id, t.name, t.state, t.blockedOn)
						}
					}
					return nil
				}
			}
		},
		// vPreemptOn / vPreemptOff: the phase of the harness in which pre-emptions are explored (param Pgate=1
		// starts with them off, so that set-up code does not consume the budget)
		"H.vPreemptOn":  func(e *Exec, th *Thread, a []Value) Value { e.preemptOff = false; return nil },
		"H.vPreemptOff": func(e *Exec, th *Thread, a []Value) Value { e.preemptOff = true; return nil },
		// vSchedPolicy(n): 0 = deterministic thread choice, 1 = every runnable thread is explored at blocking points
		"H.vSchedPolicy": func(e *Exec, th *Thread, a []Value) Value {
			e.schedPolicy = e.concInt(a[0].(*Term), "sched policy")
			return nil
		},
		"H.vSpins": func(e *Exec, th *Thread, a []Value) Value { return IntC(int64(e.spins)) },
		"H.vThreadsLive": func(e *Exec, th *Thread, a []Value) Value {
			n := 0
			for _, t := range e.threads {
				if t != th && t.state != tsDone {
					n++
				}
			}
			return IntC(int64(n))
		},
		"H.vDeepEqual": func(e *Exec, th *Thread, a []Value) Value {
			return e.deepEqual(a[0], a[1], 0)
		},
		"H.vTrace": func(e *Exec, th *Thread, a []Value) Value {
			e.trace = append(e.trace, "T:"+strArg(a[0]))
			return nil
		},
		"H.nondetOneOf": func(e *Exec, th *Thread, a []Value) Value {
			tag := strArg(a[0])
			lits := strings.Split(strArg(a[1]), "|")
			k := e.fresh("nd."+tag, 8)
			e.assume(BVCmp("bvult", k, BVC(8, uint64(len(lits)))))
			e.nondets = append(e.nondets, NondetRec{Tag: tag, Kind: "int", terms: []*Term{k}})
			maxLen := 0
			for _, l := range lits {
				if len(l) > maxLen {
					maxLen = len(l)
				}
			}
			n := IntC(int64(len(lits[len(lits)-1])))
			for i := len(lits) - 2; i >= 0; i-- {
				n = Ite(Eq(k, BVC(8, uint64(i))), IntC(int64(len(lits[i]))), n)
			}
			b := make([]*Term, maxLen)
			at := func(l string, j int) *Term {
				if j < len(l) {
					return BVC(8, uint64(l[j]))
				}
				return BVC(8, 0)
			}
			for j := 0; j < maxLen; j++ {
				t := at(lits[len(lits)-1], j)
				for i := len(lits) - 2; i >= 0; i-- {
					t = Ite(Eq(k, BVC(8, uint64(i))), at(lits[i], j), t)
				}
				b[j] = t
			}
			return &StrV{n: n, b: b}
		},
		"H.vStrHas": func(e *Exec, th *Thread, a []Value) Value {
			s := a[0].(*StrV)
			c := a[1].(*Term)
			var cs []*Term
			for _, b := range s.b {
				cs = append(cs, Eq(b, c))
			}
			return Or(cs...)
		},
		"H.vConcat": func(e *Exec, th *Thread, a []Value) Value {
			return e.strConcat(a[0].(*StrV), a[1].(*StrV))
		},

		// ---- strings / fmt / errors / log --------------------------------
		"strings.Split": func(e *Exec, th *Thread, a []Value) Value {
			return e.strSplit(th, a[0].(*StrV), a[1].(*StrV), nil)
		},
		"strings.HasPrefix": func(e *Exec, th *Thread, a []Value) Value {
			return e.strHasPrefix(a[0].(*StrV), a[1].(*StrV))
		},
		"fmt.Sprintf": func(e *Exec, th *Thread, a []Value) Value {
			s, _ := e.sprintf(th, a[0], a[1])
			return s
		},
		"fmt.Errorf": func(e *Exec, th *Thread, a []Value) Value {
			s, w := e.sprintf(th, a[0], a[1])
			return e.mkErr(truncName(s), w)
		},
		"fmt.Printf":  func(e *Exec, th *Thread, a []Value) Value { return TupleV{IntC(0), IfaceV{}} },
		"fmt.Println": func(e *Exec, th *Thread, a []Value) Value { return TupleV{IntC(0), IfaceV{}} },
		"log.Printf":  func(e *Exec, th *Thread, a []Value) Value { return nil },
		"log.Println": func(e *Exec, th *Thread, a []Value) Value { return nil },
		"errors.New": func(e *Exec, th *Thread, a []Value) Value {
			return e.mkErr(truncName(a[0].(*StrV)), nil)
		},
		"errors.Is": func(e *Exec, th *Thread, a []Value) Value {
			return e.errorsIs(th, a[0], a[1])
		},
		"go.uber.org/multierr.Combine": func(e *Exec, th *Thread, a []Value) Value {
			sl, _ := a[0].(*SliceV)
			if sl.IsNil() {
				return IfaceV{}
			}
			for i := 0; i < sl.len; i++ {
				v := e.load(PtrV{obj: sl.obj, path: []int{sl.off + i}}).(IfaceV)
				if v.t != nil {
					return v
				}
			}
			return IfaceV{}
		},

		// ---- reflect ------------------------------------------------------
		"reflect.ValueOf": func(e *Exec, th *Thread, a []Value) Value { return ReflectV{v: a[0]} },
		"(reflect.Value).IsNil": func(e *Exec, th *Thread, a []Value) Value {
			iv, _ := a[0].(ReflectV).v.(IfaceV)
			if iv.t == nil {
				e.raise(th, "reflect-IsNil-on-invalid", nil)
			}
			switch v := iv.v.(type) {
			case PtrV:
				return BoolC(v.IsNil())
			case MapV:
				return BoolC(v.m == nil)
			case *SliceV:
				return BoolC(v.IsNil())
			case *BytesV:
				return BoolC(v == nil || v.nilb)
			case ChanV:
				return BoolC(v.c == nil)
			case *FuncV:
				return BoolC(v.IsNil())
			case IfaceV:
				return BoolC(v.t == nil)
			}
			e.raise(th, "reflect-IsNil-on-non-nillable", nil)
			return nil
		},
		"(reflect.Value).IsZero": func(e *Exec, th *Thread, a []Value) Value {
			iv, _ := a[0].(ReflectV).v.(IfaceV)
			if iv.t == nil {
				e.raise(th, "reflect-IsZero-on-invalid", nil)
			}
			return e.eqNil(iv.v, e.zero(iv.t))
		},
		"(reflect.Value).Len": func(e *Exec, th *Thread, a []Value) Value {
			iv, _ := a[0].(ReflectV).v.(IfaceV)
			switch v := iv.v.(type) {
			case *SliceV:
				if v.IsNil() {
					return IntC(0)
				}
				return IntC(int64(v.len))
			case *StrV:
				return v.n
			case MapV:
				if v.m == nil {
					return IntC(0)
				}
				return IntC(int64(len(v.m.entries)))
			}
			e.raise(th, "reflect-Len-on-bad-kind", nil)
			return nil
		},
		"(reflect.Value).Index": func(e *Exec, th *Thread, a []Value) Value {
			iv, _ := a[0].(ReflectV).v.(IfaceV)
			i := e.concInt(a[1].(*Term), "reflect index")
			sl, ok := iv.v.(*SliceV)
			if !ok || sl.IsNil() || i < 0 || i >= sl.len {
				e.raise(th, "reflect-Index-out-of-range", nil)
			}
			et := iv.t.Underlying().(*types.Slice).Elem()
			return ReflectV{v: IfaceV{t: et, v: e.load(PtrV{obj: sl.obj, path: []int{sl.off + i}})}}
		},
		"(reflect.Value).Interface": func(e *Exec, th *Thread, a []Value) Value {
			iv, _ := a[0].(ReflectV).v.(IfaceV)
			if _, isI := iv.t.Underlying().(*types.Interface); isI {
				return iv.v
			}
			return iv
		},

		// ---- sync ---------------------------------------------------------
		"(*sync.Mutex).Lock":      func(e *Exec, th *Thread, a []Value) Value { e.lock(th, a[0].(PtrV), true); return nil },
		"(*sync.Mutex).Unlock":    func(e *Exec, th *Thread, a []Value) Value { e.unlock(th, a[0].(PtrV), true); return nil },
		"(*sync.RWMutex).Lock":    func(e *Exec, th *Thread, a []Value) Value { e.lock(th, a[0].(PtrV), true); return nil },
		"(*sync.RWMutex).Unlock":  func(e *Exec, th *Thread, a []Value) Value { e.unlock(th, a[0].(PtrV), true); return nil },
		"(*sync.RWMutex).RLock":   func(e *Exec, th *Thread, a []Value) Value { e.lock(th, a[0].(PtrV), false); return nil },
		"(*sync.RWMutex).RUnlock": func(e *Exec, th *Thread, a []Value) Value { e.unlock(th, a[0].(PtrV), false); return nil },
		"(*sync.Once).Do": func(e *Exec, th *Thread, a []Value) Value {
			k := a[0].(PtrV).key()
			o := e.onces[k]
			if o == nil {
				o = &onceState{}
				e.onces[k] = o
			}
			e.preemptPoint(th)
			if o.done {
				return nil
			}
			if o.running {
				e.blockUntil(th, "Once.Do", func() bool { return o.done })
				return nil
			}
			o.running = true
			defer func() { o.done = true; o.running = false }()
			e.callValue(th, a[1], nil)
			return nil
		},
		"(*sync.WaitGroup).Add": func(e *Exec, th *Thread, a []Value) Value {
			k := a[0].(PtrV).key()
			w := e.wgs[k]
			if w == nil {
				w = &wgState{}
				e.wgs[k] = w
			}
			w.n += e.concInt(a[1].(*Term), "WaitGroup delta")
			if w.n < 0 {
				e.raise(th, "negative-WaitGroup-counter", nil)
			}
			return nil
		},
		"(*sync.WaitGroup).Done": func(e *Exec, th *Thread, a []Value) Value {
			k := a[0].(PtrV).key()
			w := e.wgs[k]
			if w == nil || w.n <= 0 {
				e.raise(th, "negative-WaitGroup-counter", nil)
			}
			w.n--
			e.preemptPoint(th)
			return nil
		},
		"(*sync.WaitGroup).Wait": func(e *Exec, th *Thread, a []Value) Value {
			k := a[0].(PtrV).key()
			w := e.wgs[k]
			if w == nil {
				return nil
			}
			e.blockUntil(th, "WaitGroup.Wait", func() bool { return w.n == 0 })
			return nil
		},

		// ---- misc ---------------------------------------------------------
		"os.Hostname":    func(e *Exec, th *Thread, a []Value) Value { return TupleV{ConcStr("host"), IfaceV{}} },
		"runtime.NumCPU": func(e *Exec, th *Thread, a []Value) Value { return IntC(1) },
		"math.Pow":       func(e *Exec, th *Thread, a []Value) Value { return OpaqueV{kind: "float"} },
		"time.Sleep":     func(e *Exec, th *Thread, a []Value) Value { e.preemptPoint(th); return nil },
		"github.com/google/uuid.New": func(e *Exec, th *Thread, a []Value) Value {
			e.uuidSeq++
			return OpaqueV{kind: "uuid", data: e.uuidSeq}
		},
		"github.com/google/uuid.NewString": func(e *Exec, th *Thread, a []Value) Value {
			e.uuidSeq++
			return ConcStr(uuidText(e.uuidSeq))
		},
		"(github.com/google/uuid.UUID).String": func(e *Exec, th *Thread, a []Value) Value {
			return ConcStr(uuidText(a[0].(OpaqueV).data.(int)))
		},
		"github.com/google/uuid.Parse": func(e *Exec, th *Thread, a []Value) Value {
			s := a[0].(*StrV)
			ok := false
			if c, isC := s.Concrete(); isC {
				ok = looksLikeUUID(c)
			} else if len(s.b) >= 32 {
				panic(e.unsupported("uuid.Parse on a symbolic string of capacity >= 32"))
			}
			if ok {
				return TupleV{OpaqueV{kind: "uuid", data: 0}, IfaceV{}}
			}
			return TupleV{OpaqueV{kind: "uuid", data: 0}, e.mkErr("invalid UUID", nil)}
		},
		"(*encoding/base64.Encoding).EncodeToString": func(e *Exec, th *Thread, a []Value) Value {
			return e.b64(a[1], true)
		},
		"(*encoding/base64.Encoding).DecodeString": func(e *Exec, th *Thread, a []Value) Value {
			s := a[1].(*StrV)
			if c, isC := s.Concrete(); isC {
				// concrete text: the real codec decides
				b, err := base64.StdEncoding.DecodeString(c)
				if err != nil {
					return TupleV{&BytesV{nilb: true}, e.mkErr("illegal base64 data", nil)}
				}
				return TupleV{&BytesV{str: ConcStr(string(b))}, IfaceV{}}
			}
			// decode may fail for arbitrary strings: fresh outcome
			ok := e.fresh("b64ok", 0)
			if e.branch(ok) {
				return TupleV{&BytesV{str: s}, IfaceV{}}
			}
			return TupleV{&BytesV{nilb: true}, e.mkErr("illegal base64 data", nil)}
		},
	}
	registerTimeCtx()
	registerJSON()
	registerURL()
	registerStreams()
	registerTLS()
	registerWS()
	registerStrings2()
	registerStd2()
	for _, f := range intrinsicsLate {
		f()
	}
}

// net/url is modelled as an opaque token: Parse stores the text in Path (or
// fails), String returns it. Only String(Parse(s)) == s is relied upon.
func registerURL() {
	fieldIdx := func(e *Exec, name string) (types.Type, int) {
		t := e.lookupType("net/url", "URL")
		st := t.Underlying().(*types.Struct)
		for i := 0; i < st.NumFields(); i++ {
			if st.Field(i).Name() == name {
				return t, i
			}
		}
		panic(e.unsupported("url.URL field " + name))
	}
	intrinsics["net/url.Parse"] = func(e *Exec, th *Thread, a []Value) Value {
		t, pi := fieldIdx(e, "Path")
		o := e.newObj(e.zero(t), t, "url")
		p := PtrV{obj: o}
		e.store(p.sub(pi), a[0])
		return TupleV{p, IfaceV{}}
	}
	intrinsics["(*net/url.URL).String"] = func(e *Exec, th *Thread, a []Value) Value {
		_, pi := fieldIdx(e, "Path")
		p := a[0].(PtrV)
		if p.IsNil() {
			e.raise(th, "nil-dereference", nil)
		}
		return e.load(p.sub(pi))
	}
	intrinsics["(*net/url.URL).IsAbs"] = func(e *Exec, th *Thread, a []Value) Value {
		_, si := fieldIdx(e, "Scheme")
		p := a[0].(PtrV)
		if p.IsNil() {
			e.raise(th, "nil-dereference", nil)
		}
		return Not(Eq(e.load(p.sub(si)).(*StrV).n, IntC(0)))
	}
}

// b64: base64 is modelled as the identity on the abstract string (an
// uninterpreted bijection); only Decode(Encode(x)) = x is relied upon.
func (e *Exec) b64(v Value, enc bool) Value {
	switch b := v.(type) {
	case *BytesV:
		if b.str != nil {
			if c, ok := b.str.Concrete(); ok && enc {
				return ConcStr(base64.StdEncoding.EncodeToString([]byte(c)))
			}
			return b.str
		}
	case *SliceV:
		return e.bytesToStr(b)
	}
	panic(e.unsupported("base64 on non-text bytes"))
}

func uuidText(n int) string {
	return fmt.Sprintf("00000000-0000-4000-8000-%012d", n)
}

func looksLikeUUID(s string) bool {
	if len(s) != 36 {
		return false
	}
	for i := 0; i < 36; i++ {
		c := s[i]
		if i == 8 || i == 13 || i == 18 || i == 23 {
			if c != '-' {
				return false
			}
			continue
		}
		if !strings.ContainsRune("0123456789abcdefABCDEF", rune(c)) {
			return false
		}
	}
	return true
}

// deepEqual: structural equality following pointers (reflect.DeepEqual-like).
func (e *Exec) deepEqual(a, b Value, depth int) *Term {
	if depth > 60 {
		panic(e.unsupported("vDeepEqual depth"))
	}
	switch x := a.(type) {
	case nil:
		return BoolC(b == nil)
	case *Term:
		y, ok := b.(*Term)
		if !ok || x.w != y.w {
			return tFalse
		}
		return Eq(x, y)
	case *StrV:
		y, ok := b.(*StrV)
		if !ok {
			return tFalse
		}
		return StrEq(x, y)
	case *StructV:
		y, ok := b.(*StructV)
		if !ok || len(x.f) != len(y.f) {
			return tFalse
		}
		cs := make([]*Term, len(x.f))
		for i := range x.f {
			cs[i] = e.deepEqual(x.f[i], y.f[i], depth+1)
		}
		return And(cs...)
	case *ArrayV:
		y, ok := b.(*ArrayV)
		if !ok || len(x.e) != len(y.e) {
			return tFalse
		}
		cs := make([]*Term, len(x.e))
		for i := range x.e {
			cs[i] = e.deepEqual(x.e[i], y.e[i], depth+1)
		}
		return And(cs...)
	case PtrV:
		y, ok := b.(PtrV)
		if !ok {
			return tFalse
		}
		if x.IsNil() || y.IsNil() {
			return BoolC(x.IsNil() && y.IsNil())
		}
		if x.key() == y.key() {
			return tTrue
		}
		return e.deepEqual(e.load(x), e.load(y), depth+1)
	case IfaceV:
		y, ok := b.(IfaceV)
		if !ok {
			return tFalse
		}
		if x.t == nil || y.t == nil {
			return BoolC(x.t == nil && y.t == nil)
		}
		if !types.Identical(x.t, y.t) {
			return tFalse
		}
		return e.deepEqual(x.v, y.v, depth+1)
	case *SliceV:
		y, ok := b.(*SliceV)
		if !ok {
			return tFalse
		}
		if x.IsNil() || y.IsNil() {
			return BoolC(x.IsNil() && y.IsNil())
		}
		if x.len != y.len {
			return tFalse
		}
		cs := make([]*Term, x.len)
		for i := 0; i < x.len; i++ {
			cs[i] = e.deepEqual(e.load(PtrV{obj: x.obj, path: []int{x.off + i}}), e.load(PtrV{obj: y.obj, path: []int{y.off + i}}), depth+1)
		}
		return And(cs...)
	case MapV:
		y, ok := b.(MapV)
		if !ok {
			return tFalse
		}
		if x.m == nil || y.m == nil {
			return BoolC(x.m == nil && y.m == nil)
		}
		if len(x.m.entries) != len(y.m.entries) {
			return tFalse
		}
		// every entry of x has an equal entry in y (keys distinct within a map)
		var cs []*Term
		for _, ex := range x.m.entries {
			var any []*Term
			for _, ey := range y.m.entries {
				any = append(any, And(e.deepEqual(ex.k, ey.k, depth+1), e.deepEqual(ex.v, ey.v, depth+1)))
			}
			cs = append(cs, Or(any...))
		}
		return And(cs...)
	case *BytesV:
		y, ok := b.(*BytesV)
		if !ok {
			return tFalse
		}
		if x == nil || y == nil || x.nilb || y.nilb {
			return BoolC((x == nil || x.nilb) && (y == nil || y.nilb))
		}
		if x.str != nil && y.str != nil {
			return StrEq(x.str, y.str)
		}
		if x.json != nil && y.json != nil {
			return jsonEq(x.json, y.json)
		}
		return tFalse
	case TimeV:
		y, ok := b.(TimeV)
		if !ok {
			return tFalse
		}
		return Eq(x.t, y.t)
	case OpaqueV:
		y, ok := b.(OpaqueV)
		if !ok {
			return tFalse
		}
		if jx, ok := x.data.(*JNode); ok {
			if jy, ok := y.data.(*JNode); ok {
				return jsonEq(jx, jy)
			}
		}
		return BoolC(x.kind == y.kind && x.data == y.data)
	case *FuncV:
		y, _ := b.(*FuncV)
		return BoolC(x.IsNil() && y.IsNil())
	case ChanV:
		y, ok := b.(ChanV)
		return BoolC(ok && x.c == y.c)
	}
	panic(e.unsupported(fmt.Sprintf("vDeepEqual on %T", a)))
}
