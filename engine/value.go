package main

// Symbolic value representation. Scalars are *Term; everything with shape
// (pointers, slices, maps, interfaces, closures, channels) is concrete per path.

import (
	"fmt"
	"go/types"
	"strings"

	"golang.org/x/tools/go/ssa"
)

type Value interface{}

// StrV is a bounded string: len (64-bit) and cap byte terms; bytes at
// positions >= len are always the constant/valued 0 (canonical padding), so
// equality is component-wise.
type StrV struct {
	n *Term
	b []*Term
}

func ConcStr(s string) *StrV {
	b := make([]*Term, len(s))
	for i := 0; i < len(s); i++ {
		b[i] = BVC(8, uint64(s[i]))
	}
	return &StrV{n: IntC(int64(len(s))), b: b}
}

func (s *StrV) Concrete() (string, bool) {
	if !s.n.IsConst() {
		return "", false
	}
	n := int(s.n.val)
	if n > len(s.b) {
		return "", false
	}
	buf := make([]byte, n)
	for i := 0; i < n; i++ {
		if !s.b[i].IsConst() {
			return "", false
		}
		buf[i] = byte(s.b[i].val)
	}
	return string(buf), true
}

func (s *StrV) at(i int) *Term {
	if i < len(s.b) {
		return s.b[i]
	}
	return BVC(8, 0)
}

func (s *StrV) String() string {
	if c, ok := s.Concrete(); ok {
		return fmt.Sprintf("%q", c)
	}
	return fmt.Sprintf("<str cap=%d>", len(s.b))
}

// StrEq is the equality formula of two bounded strings.
func StrEq(a, b *StrV) *Term {
	m := len(a.b)
	if len(b.b) > m {
		m = len(b.b)
	}
	cs := []*Term{Eq(a.n, b.n)}
	for i := 0; i < m; i++ {
		cs = append(cs, Eq(a.at(i), b.at(i)))
	}
	return And(cs...)
}

type StructV struct{ f []Value }
type ArrayV struct{ e []Value }
type TupleV []Value

type Obj struct {
	id   int
	val  Value
	typ  types.Type
	name string
}

type PtrV struct {
	obj  *Obj
	path []int
}

func (p PtrV) IsNil() bool { return p.obj == nil }
func (p PtrV) sub(i int) PtrV {
	np := make([]int, len(p.path)+1)
	copy(np, p.path)
	np[len(p.path)] = i
	return PtrV{obj: p.obj, path: np}
}
func (p PtrV) key() string {
	if p.obj == nil {
		return "nil"
	}
	var sb strings.Builder
	fmt.Fprintf(&sb, "%d", p.obj.id)
	for _, i := range p.path {
		fmt.Fprintf(&sb, ".%d", i)
	}
	return sb.String()
}

// SliceV: obj.val is *ArrayV; off/len/cap concrete. symLen, when non-nil,
// is a symbolic length with 1 <= symLen <= len (only produced by strings.Split).
type SliceV struct {
	obj    *Obj
	off    int
	len    int
	cap    int
	symLen *Term
}

func (s *SliceV) IsNil() bool { return s == nil || s.obj == nil }

// BytesV is an immutable []byte that carries either a JSON tree or a text.
type BytesV struct {
	json *JNode
	str  *StrV
	nilb bool
	n    *Term // length of a JSON frame on the wire (symbolic), when it matters
}

// AbufV is a non-nil byte slice of symbolic length whose contents are not observed
// (I/O buffers in the size/budget lemmas).
type AbufV struct{ n *Term }

type MapEntry struct {
	k, v Value
}
type MapObj struct {
	id      int
	entries []MapEntry
	typ     *types.Map
}
type MapV struct{ m *MapObj } // m == nil: nil map

type IfaceV struct {
	t types.Type // nil: nil interface
	v Value
}

type FuncV struct {
	fn   *ssa.Function
	free []Value
	intr func(e *Exec, th *Thread, args []Value) Value
	name string
}

func (f *FuncV) IsNil() bool { return f == nil || (f.fn == nil && f.intr == nil) }

type ChanObj struct {
	id     int
	cap    int
	buf    []Value
	closed bool
	typ    types.Type
	recvq  []*waiter
	sendq  []*waiter
}
type ChanV struct{ c *ChanObj }

// TimeV abstracts time.Time to one signed 64-bit instant (0 = zero time).
type TimeV struct{ t *Term }

// ErrData is the payload of engine-made errors (errors.New, fmt.Errorf, sentinels).
type ErrData struct {
	name    string
	wrapped Value // IfaceV or nil
	timeout bool
}

// CtxData is the engine model of the std context implementations.
type CtxData struct {
	id          int
	parent      *CtxData
	done        *ChanObj
	err         Value // IfaceV (nil iface when live)
	hasDeadline bool
	deadline    *Term
	key, val    Value
	children    []*CtxData
	cancelable  bool
	foreign     *IfaceV
}

// ReflectV models reflect.Value for the few calls lime-go makes.
type ReflectV struct{ v Value }

// OpaqueV is a placeholder for values the engine does not interpret.
type OpaqueV struct {
	kind string
	data interface{}
}

// LazyV is an array element computed on first load.
type LazyV struct {
	f   func() Value
	val Value
}

func (e *Exec) newObj(v Value, t types.Type, name string) *Obj {
	e.objSeq++
	return &Obj{id: e.objSeq, val: v, typ: t, name: name}
}

func isNamed(t types.Type, pkg, name string) bool {
	n, ok := t.(*types.Named)
	if !ok {
		return false
	}
	o := n.Obj()
	return o.Pkg() != nil && o.Pkg().Path() == pkg && o.Name() == name
}

func intWidth(t types.Type) (int, bool) {
	b, ok := t.Underlying().(*types.Basic)
	if !ok {
		return 0, false
	}
	switch b.Kind() {
	case types.Int, types.Int64, types.UntypedInt:
		return 64, true
	case types.Uint, types.Uint64, types.Uintptr:
		return 64, false
	case types.Int32, types.UntypedRune:
		return 32, true
	case types.Uint32:
		return 32, false
	case types.Int16:
		return 16, true
	case types.Uint16:
		return 16, false
	case types.Int8:
		return 8, true
	case types.Uint8:
		return 8, false
	}
	return 0, false
}

func isIntType(t types.Type) bool {
	b, ok := t.Underlying().(*types.Basic)
	return ok && b.Info()&types.IsInteger != 0
}

func (e *Exec) zero(t types.Type) Value {
	if isNamed(t, "time", "Time") {
		return TimeV{t: IntC(0)}
	}
	if isNamed(t, "reflect", "Value") {
		return ReflectV{}
	}
	switch u := t.Underlying().(type) {
	case *types.Basic:
		switch {
		case u.Info()&types.IsBoolean != 0:
			return tFalse
		case u.Info()&types.IsInteger != 0:
			w, _ := intWidth(t)
			return BVC(w, 0)
		case u.Info()&types.IsString != 0:
			return ConcStr("")
		case u.Info()&types.IsFloat != 0:
			return OpaqueV{kind: "float", data: 0.0}
		case u.Kind() == types.UnsafePointer:
			return PtrV{}
		case u.Kind() == types.UntypedNil:
			return nil
		}
	case *types.Struct:
		f := make([]Value, u.NumFields())
		for i := range f {
			f[i] = e.zero(u.Field(i).Type())
		}
		return &StructV{f: f}
	case *types.Array:
		el := make([]Value, u.Len())
		for i := range el {
			el[i] = e.zero(u.Elem())
		}
		return &ArrayV{e: el}
	case *types.Pointer:
		return PtrV{}
	case *types.Slice:
		return (*SliceV)(nil)
	case *types.Map:
		return MapV{}
	case *types.Chan:
		return ChanV{}
	case *types.Interface:
		return IfaceV{}
	case *types.Signature:
		return (*FuncV)(nil)
	case *types.Tuple:
		tv := make(TupleV, u.Len())
		for i := range tv {
			tv[i] = e.zero(u.At(i).Type())
		}
		return tv
	}
	panic(e.unsupported("zero value of " + t.String()))
}

// load/store through a pointer path (functional update of immutable trees).
func getPath(v Value, path []int) Value {
	for _, i := range path {
		switch x := v.(type) {
		case *StructV:
			v = x.f[i]
		case *ArrayV:
			v = x.e[i]
		default:
			panic(fmt.Sprintf("getPath: bad container %T", v))
		}
	}
	return v
}

func setPath(v Value, path []int, nv Value) Value {
	if len(path) == 0 {
		return nv
	}
	i := path[0]
	switch x := v.(type) {
	case *StructV:
		nf := make([]Value, len(x.f))
		copy(nf, x.f)
		nf[i] = setPath(x.f[i], path[1:], nv)
		return &StructV{f: nf}
	case *ArrayV:
		ne := make([]Value, len(x.e))
		copy(ne, x.e)
		ne[i] = setPath(x.e[i], path[1:], nv)
		return &ArrayV{e: ne}
	}
	panic(fmt.Sprintf("setPath: bad container %T", v))
}

func (e *Exec) load(p PtrV) Value {
	v := getPath(p.obj.val, p.path)
	if lz, ok := v.(*LazyV); ok {
		if lz.val == nil {
			lz.val = lz.f()
		}
		return lz.val
	}
	return v
}

func (e *Exec) store(p PtrV, v Value) {
	if l := e.local; l != nil && p.obj.id <= l.entrySeq {
		if _, ok := l.saved[p.obj]; !ok {
			l.saved[p.obj] = p.obj.val
			l.order = append(l.order, p.obj)
		}
	}
	p.obj.val = setPath(p.obj.val, p.path, v)
}
