package main

// Model of encoding/json over an abstract JSON tree. lime-go's own
// MarshalJSON/UnmarshalJSON/MarshalText/UnmarshalText methods are executed
// symbolically; only the reflection-driven dispatch of the library is modelled.

import (
	"encoding/json"
	"fmt"
	"go/types"
	"reflect"
	"sort"
	"strconv"
	"strings"

	"golang.org/x/tools/go/ssa"
)

type jKind int

const (
	jNull jKind = iota
	jBool
	jNum
	jStr
	jArr
	jObj
	jLazy
)

type JNode struct {
	kind jKind
	b    *Term
	num  *Term
	tok  string // non-integer number literal (opaque)
	s    *StrV
	arr  []*JNode
	keys []*StrV
	vals []*JNode
	cnds []*Term // per key: nil = always present, otherwise the presence condition (omitempty on a symbolic scalar)
	// lazy / open-object support (untrusted input)
	lz      *lazyCfg
	depth   int
	open    bool // object whose further keys are decided on demand
	absent  map[string]bool
	keyName string // the key under which this node sits (for literal tables)
	id      int
	alien   bool
}

type lazyCfg struct {
	tag      string
	strCap   int
	maxArr   int
	literals map[string][]string // key name -> candidate string literals
	seq      int
}

func jStrC(s string) *JNode { return &JNode{kind: jStr, s: ConcStr(s)} }

func (n *JNode) addKey(k *StrV, v *JNode, c *Term) {
	n.keys = append(n.keys, k)
	n.vals = append(n.vals, v)
	n.cnds = append(n.cnds, c)
}

func (n *JNode) cond(i int) *Term {
	if i < len(n.cnds) && n.cnds[i] != nil {
		return n.cnds[i]
	}
	return tTrue
}

func (n *JNode) collectTerms(out *[]*Term) {
	switch n.kind {
	case jBool:
		*out = append(*out, n.b)
	case jNum:
		if n.num != nil {
			*out = append(*out, n.num)
		}
	case jStr:
		*out = append(*out, n.s.n)
		*out = append(*out, n.s.b...)
	case jArr:
		for _, c := range n.arr {
			c.collectTerms(out)
		}
	case jObj:
		for i := range n.keys {
			*out = append(*out, n.keys[i].n)
			*out = append(*out, n.keys[i].b...)
			if c := n.cond(i); !c.IsConst() {
				*out = append(*out, c)
			}
			n.vals[i].collectTerms(out)
		}
	}
}

func renderStr(s *StrV, get func(*Term) uint64) string {
	ln := int(get(s.n))
	if ln > len(s.b) {
		ln = len(s.b)
	}
	buf := make([]byte, ln)
	for i := 0; i < ln; i++ {
		buf[i] = byte(get(s.b[i]))
	}
	return string(buf)
}

func jsonQuote(s string) string {
	var sb strings.Builder
	sb.WriteByte('"')
	for i := 0; i < len(s); i++ {
		c := s[i]
		switch {
		case c == '"' || c == '\\':
			sb.WriteByte('\\')
			sb.WriteByte(c)
		case c < 0x20 || c == 0x7f:
			fmt.Fprintf(&sb, "\\u%04x", c)
		default:
			sb.WriteByte(c)
		}
	}
	sb.WriteByte('"')
	return sb.String()
}

func (n *JNode) render(get func(*Term) uint64) string {
	switch n.kind {
	case jNull:
		return "null"
	case jLazy:
		return "null" // never inspected: any value would do
	case jBool:
		if get(n.b) == 1 {
			return "true"
		}
		return "false"
	case jNum:
		if n.tok != "" {
			return n.tok
		}
		return strconv.FormatInt(int64(get(n.num)), 10)
	case jStr:
		return jsonQuote(renderStr(n.s, get))
	case jArr:
		var ps []string
		for _, c := range n.arr {
			ps = append(ps, c.render(get))
		}
		return "[" + strings.Join(ps, ",") + "]"
	case jObj:
		var ps []string
		for i := range n.keys {
			if c := n.cond(i); !c.IsConst() && get(c) == 0 {
				continue
			}
			ps = append(ps, jsonQuote(renderStr(n.keys[i], get))+":"+n.vals[i].render(get))
		}
		if n.alien {
			ps = append(ps, `"x-alien":1`)
		}
		return "{" + strings.Join(ps, ",") + "}"
	}
	return "null"
}

func jsonEq(a, b *JNode) *Term {
	if a == b {
		return tTrue
	}
	if a.kind != b.kind {
		return tFalse
	}
	switch a.kind {
	case jNull:
		return tTrue
	case jBool:
		return Eq(a.b, b.b)
	case jNum:
		if a.tok != "" || b.tok != "" {
			return BoolC(a.tok == b.tok)
		}
		return Eq(a.num, b.num)
	case jStr:
		return StrEq(a.s, b.s)
	case jArr:
		if len(a.arr) != len(b.arr) {
			return tFalse
		}
		var cs []*Term
		for i := range a.arr {
			cs = append(cs, jsonEq(a.arr[i], b.arr[i]))
		}
		return And(cs...)
	case jObj:
		if len(a.keys) != len(b.keys) {
			return tFalse
		}
		var cs []*Term
		if len(a.cnds) > 0 || len(b.cnds) > 0 {
			// objects produced from the same struct type: same key order
			for i := range a.keys {
				cs = append(cs, StrEq(a.keys[i], b.keys[i]), Eq(a.cond(i), b.cond(i)), Implies(a.cond(i), jsonEq(a.vals[i], b.vals[i])))
			}
			return And(cs...)
		}
		for i := range a.keys {
			var any []*Term
			for j := range b.keys {
				any = append(any, And(StrEq(a.keys[i], b.keys[j]), jsonEq(a.vals[i], b.vals[j])))
			}
			cs = append(cs, Or(any...))
		}
		return And(cs...)
	}
	return tFalse
}

func (e *Exec) jsonLen(b *BytesV) *Term {
	if b.n == nil {
		// the length of a JSON text is an arbitrary positive number, fixed per value
		b.n = e.fresh("jsonlen", 64)
		e.assume(BVCmp("bvslt", IntC(1), b.n))
		e.assume(BVCmp("bvslt", b.n, IntC(1<<40)))
	}
	return b.n
}

// ---- forcing lazy nodes -----------------------------------------------------

func (e *Exec) force(n *JNode) *JNode {
	if n.kind != jLazy {
		return n
	}
	cfg := n.lz
	kinds := []jKind{jNull, jStr, jNum, jBool, jObj, jArr}
	if n.depth <= 0 {
		kinds = []jKind{jNull, jStr, jNum, jBool}
	}
	k := e.choose("json:"+cfg.tag, len(kinds), nil, false)
	cfg.seq++
	tag := fmt.Sprintf("nd.%s.j%d", cfg.tag, cfg.seq)
	switch kinds[k] {
	case jNull:
		n.kind = jNull
	case jBool:
		n.kind = jBool
		n.b = e.fresh(tag+".b", 0)
	case jNum:
		n.kind = jNum
		n.num = e.fresh(tag+".n", 64)
		e.assume(BVCmp("bvsle", IntC(-1000000), n.num))
		e.assume(BVCmp("bvsle", n.num, IntC(1000000)))
	case jStr:
		lits := cfg.literals[n.keyName]
		c := 0
		if len(lits) > 0 {
			c = e.choose("jsonlit:"+cfg.tag, 1+len(lits), nil, false)
		}
		n.kind = jStr
		if c == 0 {
			s, _ := e.freshStr(tag+".s", cfg.strCap)
			n.s = s
		} else {
			n.s = ConcStr(lits[c-1])
		}
	case jArr:
		ln := e.choose("jsonarr:"+cfg.tag, cfg.maxArr+1, nil, false)
		n.kind = jArr
		for i := 0; i < ln; i++ {
			n.arr = append(n.arr, &JNode{kind: jLazy, lz: cfg, depth: n.depth - 1, keyName: n.keyName + "[]"})
		}
	case jObj:
		n.kind = jObj
		n.open = true
		n.absent = map[string]bool{}
		n.alien = true
	}
	return n
}

// field looks a key up in an object; for open objects presence is decided on demand.
func (e *Exec) objField(n *JNode, name string) *JNode {
	var found *JNode
	for i := range n.keys {
		if k, ok := n.keys[i].Concrete(); ok {
			if k == name || strings.EqualFold(k, name) {
				found = n.vals[i] // last duplicate wins
			}
		} else {
			panic(e.unsupported("struct decode from object with symbolic key"))
		}
	}
	if found != nil || !n.open || n.absent[name] {
		return found
	}
	if e.choose("jsonkey:"+n.lz.tag, 2, nil, false) == 0 {
		n.absent[name] = true
		return nil
	}
	c := &JNode{kind: jLazy, lz: n.lz, depth: n.depth - 1, keyName: name}
	n.addKey(ConcStr(name), c, nil)
	return c
}

// ---- type helpers -------------------------------------------------------------

func (e *Exec) findMethod(t types.Type, name string) *ssa.Function {
	ms := e.x.prog.MethodSets.MethodSet(t)
	for i := 0; i < ms.Len(); i++ {
		if ms.At(i).Obj().Name() == name {
			return e.x.prog.MethodValue(ms.At(i))
		}
	}
	return nil
}

func isRawMessage(t types.Type) bool { return isNamed(t, "encoding/json", "RawMessage") }

func isPtrKind(t types.Type) bool {
	_, ok := t.Underlying().(*types.Pointer)
	return ok
}

func isIfaceKind(t types.Type) bool {
	_, ok := t.Underlying().(*types.Interface)
	return ok
}

type jsonField struct {
	name      string
	idx       []int
	typ       types.Type
	omitEmpty bool
}

func (e *Exec) jsonFields(st *types.Struct, prefix []int) []jsonField {
	var out []jsonField
	for i := 0; i < st.NumFields(); i++ {
		f := st.Field(i)
		tag := reflect.StructTag(st.Tag(i)).Get("json")
		if tag == "-" {
			continue
		}
		name, opts, _ := strings.Cut(tag, ",")
		idx := append(append([]int{}, prefix...), i)
		if f.Anonymous() && name == "" {
			if sub, ok := f.Type().Underlying().(*types.Struct); ok {
				out = append(out, e.jsonFields(sub, idx)...)
				continue
			}
		}
		if !f.Exported() {
			continue
		}
		if name == "" {
			name = f.Name()
		}
		out = append(out, jsonField{name: name, idx: idx, typ: f.Type(), omitEmpty: strings.Contains(opts, "omitempty")})
	}
	return out
}

func (e *Exec) jsonErr(what string) Value { return e.mkErr("json: "+what, nil) }

func isNilErr(v Value) bool {
	iv, _ := v.(IfaceV)
	return iv.t == nil
}

// ---- Marshal ------------------------------------------------------------------

func (e *Exec) isEmptyValue(v Value, t types.Type) *Term {
	switch x := v.(type) {
	case *Term:
		if x.w == 0 {
			return Not(x)
		}
		return Eq(x, BVC(x.w, 0))
	case *StrV:
		return Eq(x.n, IntC(0))
	case PtrV:
		return BoolC(x.IsNil())
	case IfaceV:
		return BoolC(x.t == nil)
	case MapV:
		return BoolC(x.m == nil || len(x.m.entries) == 0)
	case *SliceV:
		return BoolC(x.IsNil() || x.len == 0)
	case *BytesV:
		return BoolC(x == nil || x.nilb)
	case *ArrayV:
		return BoolC(len(x.e) == 0)
	}
	return tFalse
}

func (e *Exec) marshal(th *Thread, v Value, t types.Type, addr *PtrV, depth int) (*JNode, Value) {
	if depth > 24 {
		panic(e.unsupported("json.Marshal nesting depth"))
	}
	if isIfaceKind(t) {
		iv := v.(IfaceV)
		if iv.t == nil {
			return &JNode{kind: jNull}, IfaceV{}
		}
		if ov, ok := iv.v.(OpaqueV); ok {
			if jn, ok := ov.data.(*JNode); ok {
				return jn, IfaceV{}
			}
		}
		return e.marshal(th, iv.v, iv.t, nil, depth+1)
	}
	if isPtrKind(t) {
		if p := v.(PtrV); p.IsNil() {
			return &JNode{kind: jNull}, IfaceV{}
		}
	}
	if pt, ok := t.Underlying().(*types.Pointer); ok && isRawMessage(pt.Elem()) {
		p := v.(PtrV)
		return e.marshal(th, e.load(p), pt.Elem(), &p, depth+1)
	}
	if isRawMessage(t) {
		b, _ := v.(*BytesV)
		if b == nil || b.nilb {
			return &JNode{kind: jNull}, IfaceV{}
		}
		if b.json == nil {
			panic(e.unsupported("RawMessage without JSON tree"))
		}
		return b.json, IfaceV{}
	}
	callM := func(fn *ssa.Function, recv Value, text bool) (*JNode, Value) {
		r := e.callFn(th, fn, []Value{recv}).(TupleV)
		if !isNilErr(r[1]) {
			return nil, e.mkErr("json: error calling MarshalJSON/MarshalText", r[1])
		}
		b, _ := r[0].(*BytesV)
		if text {
			if b == nil || b.nilb {
				return jStrC(""), IfaceV{}
			}
			if b.str == nil {
				if sl, ok := r[0].(*SliceV); ok {
					return &JNode{kind: jStr, s: e.bytesToStr(sl)}, IfaceV{}
				}
				panic(e.unsupported("MarshalText result is not text"))
			}
			return &JNode{kind: jStr, s: b.str}, IfaceV{}
		}
		if b == nil || b.json == nil {
			if sl, ok := r[0].(*SliceV); ok && !sl.IsNil() && sl.len == 0 {
				return nil, e.mkErr("json: error calling MarshalJSON: unexpected end of JSON input", nil)
			}
			panic(e.unsupported("MarshalJSON result is not a JSON tree"))
		}
		return b.json, IfaceV{}
	}
	if fn := e.findMethod(t, "MarshalJSON"); fn != nil {
		return callM(fn, v, false)
	}
	if !isPtrKind(t) && addr != nil {
		if fn := e.findMethod(types.NewPointer(t), "MarshalJSON"); fn != nil {
			return callM(fn, *addr, false)
		}
	}
	if fn := e.findMethod(t, "MarshalText"); fn != nil {
		return callM(fn, v, true)
	}
	if !isPtrKind(t) && addr != nil {
		if fn := e.findMethod(types.NewPointer(t), "MarshalText"); fn != nil {
			return callM(fn, *addr, true)
		}
	}
	switch u := t.Underlying().(type) {
	case *types.Pointer:
		p := v.(PtrV)
		return e.marshal(th, e.load(p), u.Elem(), &p, depth+1)
	case *types.Basic:
		switch x := v.(type) {
		case *Term:
			if x.w == 0 {
				return &JNode{kind: jBool, b: x}, IfaceV{}
			}
			_, signed := intWidth(t)
			if signed {
				return &JNode{kind: jNum, num: SExt(x, 64)}, IfaceV{}
			}
			return &JNode{kind: jNum, num: ZExt(x, 64)}, IfaceV{}
		case *StrV:
			return &JNode{kind: jStr, s: x}, IfaceV{}
		}
	case *types.Struct:
		sv := v.(*StructV)
		n := &JNode{kind: jObj}
		for _, f := range e.jsonFields(u, nil) {
			fv := getPath(sv, f.idx)
			var present *Term
			if f.omitEmpty {
				emp := e.isEmptyValue(fv, f.typ)
				_, basic := f.typ.Underlying().(*types.Basic)
				if !emp.IsConst() && basic && e.findMethod(f.typ, "MarshalJSON") == nil && e.findMethod(f.typ, "MarshalText") == nil {
					present = Not(emp)
				} else if e.branch(emp) {
					continue
				}
			}
			var fa *PtrV
			if addr != nil {
				p := *addr
				for _, i := range f.idx {
					p = p.sub(i)
				}
				fa = &p
			}
			c, err := e.marshal(th, fv, f.typ, fa, depth+1)
			if !isNilErr(err) {
				return nil, err
			}
			n.addKey(ConcStr(f.name), c, present)
		}
		return n, IfaceV{}
	case *types.Map:
		m := v.(MapV)
		if m.m == nil {
			return &JNode{kind: jNull}, IfaceV{}
		}
		n := &JNode{kind: jObj}
		for _, en := range m.m.entries {
			ks, ok := en.k.(*StrV)
			if !ok {
				panic(e.unsupported("json map with non-string key"))
			}
			c, err := e.marshal(th, en.v, u.Elem(), nil, depth+1)
			if !isNilErr(err) {
				return nil, err
			}
			n.addKey(ks, c, nil)
		}
		return n, IfaceV{}
	case *types.Slice:
		sl, _ := v.(*SliceV)
		if bv, ok := v.(*BytesV); ok {
			if bv == nil || bv.nilb {
				return &JNode{kind: jNull}, IfaceV{}
			}
			panic(e.unsupported("json of raw byte slice"))
		}
		if sl.IsNil() {
			return &JNode{kind: jNull}, IfaceV{}
		}
		n := &JNode{kind: jArr}
		for i := 0; i < sl.len; i++ {
			p := PtrV{obj: sl.obj, path: []int{sl.off + i}}
			c, err := e.marshal(th, e.load(p), u.Elem(), &p, depth+1)
			if !isNilErr(err) {
				return nil, err
			}
			n.arr = append(n.arr, c)
		}
		return n, IfaceV{}
	}
	panic(e.unsupported(fmt.Sprintf("json.Marshal of %s (%T)", t, v)))
}

// ---- Unmarshal ------------------------------------------------------------------

// rv mirrors the reflect.Value walked by encoding/json's indirect().
type rv struct {
	isPtrVal bool  // the value is the (unsettable) pointer ptr of type t
	ptr      PtrV  // location of the value (or the pointer itself when isPtrVal)
	t        types.Type
	canSet   bool
}

func (e *Exec) implementsU(t types.Type, name string) *ssa.Function {
	return e.findMethod(t, name)
}

// decode stores JSON node n into the location loc (type t). Returns an error value.
func (e *Exec) decode(th *Thread, n *JNode, start rv, depth int) Value {
	if depth > 24 {
		panic(e.unsupported("json.Unmarshal nesting depth"))
	}
	n = e.force(n)
	isNull := n.kind == jNull
	v := start
	haveAddr := false
	var orig rv
	if !v.isPtrVal && !isPtrKind(v.t) {
		if _, named := v.t.(*types.Named); named {
			haveAddr = true
			orig = v
			v = rv{isPtrVal: true, ptr: v.ptr, t: types.NewPointer(v.t)}
		}
	}
	for {
		if !v.isPtrVal && isIfaceKind(v.t) {
			iv := e.load(v.ptr).(IfaceV)
			if iv.t != nil {
				if pt, ok := iv.t.Underlying().(*types.Pointer); ok {
					if p := iv.v.(PtrV); !p.IsNil() && (!isNull || isPtrKind(pt.Elem())) {
						haveAddr = false
						v = rv{isPtrVal: true, ptr: p, t: iv.t}
						continue
					}
				}
			}
		}
		if !isPtrKind(v.t) {
			break
		}
		if isNull && !v.isPtrVal && v.canSet {
			break
		}
		var target PtrV
		if v.isPtrVal {
			target = v.ptr
		} else {
			p := e.load(v.ptr).(PtrV)
			if p.IsNil() {
				et := v.t.Underlying().(*types.Pointer).Elem()
				p = PtrV{obj: e.newObj(e.zero(et), et, "json.new")}
				e.store(v.ptr, p)
			}
			target = p
		}
		if isRawMessage(v.t.Underlying().(*types.Pointer).Elem()) {
			e.store(target, &BytesV{json: n})
			return IfaceV{}
		}
		if fn := e.implementsU(v.t, "UnmarshalJSON"); fn != nil {
			return e.callFn(th, fn, []Value{target, &BytesV{json: n}})
		}
		if !isNull {
			if fn := e.implementsU(v.t, "UnmarshalText"); fn != nil {
				if n.kind != jStr {
					return e.jsonErr("cannot unmarshal non-string into Go value implementing TextUnmarshaler")
				}
				return e.callFn(th, fn, []Value{target, &BytesV{str: n.s}})
			}
		}
		if haveAddr {
			v = orig
			haveAddr = false
		} else {
			v = rv{ptr: target, t: v.t.Underlying().(*types.Pointer).Elem(), canSet: true}
		}
	}
	// v is now the value to fill
	pv := v
	emptyIface := false
	if it, ok := pv.t.Underlying().(*types.Interface); ok {
		emptyIface = it.NumMethods() == 0
	}
	typeErr := func() Value {
		return e.jsonErr("cannot unmarshal " + [...]string{"null", "bool", "number", "string", "array", "object", "lazy"}[n.kind] + " into Go value of type " + pv.t.String())
	}
	switch n.kind {
	case jNull:
		switch pv.t.Underlying().(type) {
		case *types.Interface, *types.Pointer, *types.Map, *types.Slice:
			e.store(pv.ptr, e.zero(pv.t))
		}
		return IfaceV{}
	case jBool:
		if b, ok := pv.t.Underlying().(*types.Basic); ok && b.Info()&types.IsBoolean != 0 {
			e.store(pv.ptr, n.b)
			return IfaceV{}
		}
		if emptyIface {
			e.store(pv.ptr, IfaceV{t: types.Typ[types.Bool], v: n.b})
			return IfaceV{}
		}
		return typeErr()
	case jNum:
		if n.tok != "" && isIntType(pv.t) {
			return typeErr()
		}
		if isIntType(pv.t) {
			w, _ := intWidth(pv.t)
			e.store(pv.ptr, Extract(w-1, 0, n.num))
			return IfaceV{}
		}
		if emptyIface {
			e.store(pv.ptr, IfaceV{t: types.Typ[types.Float64], v: OpaqueV{kind: "jsonnum", data: n}})
			return IfaceV{}
		}
		return typeErr()
	case jStr:
		if b, ok := pv.t.Underlying().(*types.Basic); ok && b.Info()&types.IsString != 0 {
			e.store(pv.ptr, n.s)
			return IfaceV{}
		}
		if emptyIface {
			e.store(pv.ptr, IfaceV{t: types.Typ[types.String], v: n.s})
			return IfaceV{}
		}
		return typeErr()
	case jArr:
		switch u := pv.t.Underlying().(type) {
		case *types.Slice:
			el := make([]Value, len(n.arr))
			for i := range el {
				el[i] = e.zero(u.Elem())
			}
			obj := e.newObj(&ArrayV{e: el}, nil, "json.slice")
			for i, c := range n.arr {
				if err := e.decode(th, c, rv{ptr: PtrV{obj: obj, path: []int{i}}, t: u.Elem(), canSet: true}, depth+1); !isNilErr(err) {
					return err
				}
			}
			e.store(pv.ptr, &SliceV{obj: obj, len: len(el), cap: len(el)})
			return IfaceV{}
		case *types.Interface:
			if emptyIface {
				e.store(pv.ptr, IfaceV{t: types.NewSlice(types.NewInterfaceType(nil, nil)), v: OpaqueV{kind: "jsonarr", data: n}})
				return IfaceV{}
			}
		}
		return typeErr()
	case jObj:
		switch u := pv.t.Underlying().(type) {
		case *types.Interface:
			if emptyIface {
				e.closeObj(n)
				e.store(pv.ptr, IfaceV{t: types.NewMap(types.Typ[types.String], types.NewInterfaceType(nil, nil)), v: OpaqueV{kind: "jsonobj", data: n}})
				return IfaceV{}
			}
			return typeErr()
		case *types.Map:
			if b, ok := u.Key().Underlying().(*types.Basic); !ok || b.Info()&types.IsString == 0 {
				return typeErr()
			}
			m := e.load(pv.ptr).(MapV)
			if m.m == nil {
				e.mapSeq++
				m = MapV{m: &MapObj{id: e.mapSeq, typ: u}}
				e.store(pv.ptr, m)
			}
			e.openMapKeys(n)
			for i := range n.keys {
				if !e.branch(n.cond(i)) {
					continue
				}
				tmp := e.newObj(e.zero(u.Elem()), u.Elem(), "json.mapelem")
				if err := e.decode(th, n.vals[i], rv{ptr: PtrV{obj: tmp}, t: u.Elem(), canSet: true}, depth+1); !isNilErr(err) {
					return err
				}
				e.mapUpdate(th, m, n.keys[i], tmp.val, u.Key())
			}
			return IfaceV{}
		case *types.Struct:
			fields := e.jsonFields(u, nil)
			if n.open {
				for _, f := range fields {
					c := e.objField(n, f.name)
					if c == nil {
						continue
					}
					p := pv.ptr
					for _, i := range f.idx {
						p = p.sub(i)
					}
					if err := e.decode(th, c, rv{ptr: p, t: f.typ, canSet: true}, depth+1); !isNilErr(err) {
						return err
					}
				}
				return IfaceV{}
			}
			for i := range n.keys {
				k, ok := n.keys[i].Concrete()
				if !ok {
					panic(e.unsupported("struct decode from object with symbolic key"))
				}
				var fld *jsonField
				for j := range fields {
					if fields[j].name == k {
						fld = &fields[j]
						break
					}
				}
				if fld == nil {
					for j := range fields {
						if strings.EqualFold(fields[j].name, k) {
							fld = &fields[j]
							break
						}
					}
				}
				if fld == nil {
					continue
				}
				p := pv.ptr
				for _, ix := range fld.idx {
					p = p.sub(ix)
				}
				if c := n.cond(i); !c.IsConst() {
					_, basic := fld.typ.Underlying().(*types.Basic)
					if basic && e.findMethod(types.NewPointer(fld.typ), "UnmarshalJSON") == nil && e.findMethod(types.NewPointer(fld.typ), "UnmarshalText") == nil {
						old := e.load(p)
						tmp := e.newObj(old, fld.typ, "json.cond")
						err := e.decode(th, n.vals[i], rv{ptr: PtrV{obj: tmp}, t: fld.typ, canSet: true}, depth+1)
						if !isNilErr(err) {
							if e.branch(c) {
								return err
							}
							continue
						}
						mg := &merger{e: e, l: &localRun{entrySeq: e.objSeq}, conds: []*Term{c, tTrue}, memo: map[string]*Obj{}}
						mv, ok := mg.merge([]Value{tmp.val, old}, 0)
						if !ok {
							panic(e.unsupported("conditional JSON key merge"))
						}
						e.store(p, mv)
						continue
					}
					if !e.branch(c) {
						continue
					}
				}
				if err := e.decode(th, n.vals[i], rv{ptr: p, t: fld.typ, canSet: true}, depth+1); !isNilErr(err) {
					return err
				}
			}
			return IfaceV{}
		}
		return typeErr()
	}
	panic(e.unsupported("json decode kind"))
}

// closeObj: an open (untrusted) object stored as generic JSON keeps only the decided keys.
func (e *Exec) closeObj(n *JNode) {}

// openMapKeys: an open object decoded into a map gets 0..1 arbitrary entries.
func (e *Exec) openMapKeys(n *JNode) {
	if !n.open || n.absent["*map*"] {
		return
	}
	n.absent["*map*"] = true
	if len(n.keys) > 0 {
		return
	}
	if e.choose("jsonmap:"+n.lz.tag, 2, nil, false) == 1 {
		n.lz.seq++
		k, _ := e.freshStr(fmt.Sprintf("nd.%s.k%d", n.lz.tag, n.lz.seq), n.lz.strCap)
		n.addKey(k, &JNode{kind: jLazy, lz: n.lz, depth: n.depth - 1, keyName: "*"}, nil)
	}
}

func registerJSON() {
	registerJSONMut()
	intrinsics["encoding/json.Marshal"] = func(e *Exec, th *Thread, a []Value) Value {
		iv := a[0].(IfaceV)
		if iv.t == nil {
			return TupleV{&BytesV{json: &JNode{kind: jNull}}, IfaceV{}}
		}
		n, err := e.marshal(th, iv.v, iv.t, nil, 0)
		if !isNilErr(err) {
			return TupleV{&BytesV{nilb: true}, err}
		}
		return TupleV{&BytesV{json: n}, IfaceV{}}
	}
	intrinsics["encoding/json.Unmarshal"] = func(e *Exec, th *Thread, a []Value) Value {
		b, _ := a[0].(*BytesV)
		if b == nil || b.json == nil {
			if b != nil && b.str != nil {
				if c, ok := b.str.Concrete(); ok {
					n, perr := parseJSONText(c)
					if perr != nil {
						return e.jsonErr("syntax error")
					}
					b = &BytesV{json: n}
				}
			}
			if b == nil || b.json == nil {
				panic(e.unsupported("json.Unmarshal of bytes without JSON tree"))
			}
		}
		iv := a[1].(IfaceV)
		if iv.t == nil || !isPtrKind(iv.t) || iv.v.(PtrV).IsNil() {
			return e.jsonErr("Unmarshal(non-pointer or nil)")
		}
		return e.decode(th, b.json, rv{isPtrVal: true, ptr: iv.v.(PtrV), t: iv.t}, 0)
	}
	// harness: symbolic untrusted JSON document
	intrinsics["H.nondetJSON"] = func(e *Exec, th *Thread, a []Value) Value {
		tag := strArg(a[0])
		depth := e.concInt(a[1].(*Term), "nondetJSON depth")
		strCap := e.concInt(a[2].(*Term), "nondetJSON strCap")
		maxArr := e.concInt(a[3].(*Term), "nondetJSON maxArr")
		cfg := &lazyCfg{tag: tag, strCap: strCap, maxArr: maxArr, literals: map[string][]string{}}
		// literal table: "key=lit1|lit2;key2=..."
		for _, part := range strings.Split(strArg(a[4]), ";") {
			k, v, ok := strings.Cut(part, "=")
			if ok {
				cfg.literals[k] = strings.Split(v, "|")
			}
		}
		n := &JNode{kind: jLazy, lz: cfg, depth: depth, keyName: ""}
		e.nondets = append(e.nondets, NondetRec{Tag: tag, Kind: "json", json: n})
		return &BytesV{json: n}
	}
	intrinsics["H.vJSONCanon"] = func(e *Exec, th *Thread, a []Value) Value {
		b, _ := a[0].(*BytesV)
		if b == nil || b.json == nil {
			panic(e.unsupported("vJSONCanon of bytes without JSON tree"))
		}
		s, ok := b.json.canon()
		if !ok {
			panic(e.unsupported("vJSONCanon of a symbolic tree"))
		}
		return ConcStr(s)
	}
	// harness: parse a constant JSON text into a tree (fixtures)
	intrinsics["H.vJSONText"] = func(e *Exec, th *Thread, a []Value) Value {
		n, err := parseJSONText(strArg(a[0]))
		if err != nil {
			panic(pathEnd{kind: "inconclusive", msg: "vJSONText: " + err.Error()})
		}
		return &BytesV{json: n}
	}
}

// ---- bounded structural mutation of a valid encoding (C02) ---------------------

type jpos struct {
	node   *JNode
	parent *JNode
	idx    int // index in parent.arr or parent.vals
}

func listPositions(n *JNode, parent *JNode, idx int, out *[]jpos) {
	*out = append(*out, jpos{node: n, parent: parent, idx: idx})
	switch n.kind {
	case jArr:
		for i, c := range n.arr {
			listPositions(c, n, i, out)
		}
	case jObj:
		for i, c := range n.vals {
			listPositions(c, n, i, out)
		}
	}
}

// symbolise replaces template leaves: strings beginning with '?' become symbolic
// strings of capacity cap, the number -1 becomes a symbolic number.
func (e *Exec) symbolise(n *JNode, tag string, cap int, seq *int) {
	switch n.kind {
	case jStr:
		if c, ok := n.s.Concrete(); ok && len(c) > 0 && c[0] == '?' {
			*seq++
			s, _ := e.freshStr(fmt.Sprintf("nd.%s.s%d", tag, *seq), cap)
			n.s = s
		}
	case jNum:
		if n.num.IsConst() && n.num.SVal() == -1 {
			*seq++
			n.num = e.fresh(fmt.Sprintf("nd.%s.n%d", tag, *seq), 64)
			e.assume(BVCmp("bvsle", IntC(-1000000), n.num))
			e.assume(BVCmp("bvsle", n.num, IntC(1000000)))
		}
	case jArr:
		for _, c := range n.arr {
			e.symbolise(c, tag, cap, seq)
		}
	case jObj:
		for i := range n.keys {
			if c, ok := n.keys[i].Concrete(); ok && len(c) > 0 && c[0] == '?' {
				*seq++
				s, _ := e.freshStr(fmt.Sprintf("nd.%s.k%d", tag, *seq), cap)
				n.keys[i] = s
			}
			e.symbolise(n.vals[i], tag, cap, seq)
		}
	}
}

const nMutOps = 9

func (e *Exec) mutate(root *JNode, tag string, cap int, seq *int, fixedPos int) *JNode {
	var ps []jpos
	listPositions(root, nil, 0, &ps)
	pi := fixedPos
	if pi < 0 || pi >= len(ps) {
		pi = e.choose("mutpos:"+tag, len(ps), nil, false)
	}
	op := e.choose("mutop:"+tag, nMutOps, nil, false)
	p := ps[pi]
	*seq++
	nm := fmt.Sprintf("nd.%s.m%d", tag, *seq)
	var repl *JNode
	switch op {
	case 0: // delete
		if p.parent == nil {
			panic(pathEnd{kind: "infeasible"})
		}
		if p.parent.kind == jArr {
			p.parent.arr = append(append([]*JNode{}, p.parent.arr[:p.idx]...), p.parent.arr[p.idx+1:]...)
		} else {
			pa := p.parent
			pa.keys = append(append([]*StrV{}, pa.keys[:p.idx]...), pa.keys[p.idx+1:]...)
			pa.vals = append(append([]*JNode{}, pa.vals[:p.idx]...), pa.vals[p.idx+1:]...)
			if len(pa.cnds) > p.idx {
				pa.cnds = append(append([]*Term{}, pa.cnds[:p.idx]...), pa.cnds[p.idx+1:]...)
			}
		}
		return root
	case 1:
		if p.node.kind == jNull {
			panic(pathEnd{kind: "infeasible"})
		}
		repl = &JNode{kind: jNull}
	case 2:
		s, _ := e.freshStr(nm+".s", cap)
		repl = &JNode{kind: jStr, s: s}
	case 3:
		repl = &JNode{kind: jNum, num: e.fresh(nm+".n", 64)}
		e.assume(BVCmp("bvsle", IntC(-1000000), repl.num))
		e.assume(BVCmp("bvsle", repl.num, IntC(1000000)))
	case 4:
		repl = &JNode{kind: jBool, b: e.fresh(nm+".b", 0)}
	case 5:
		repl = &JNode{kind: jObj}
	case 6:
		repl = &JNode{kind: jArr}
	case 7: // wrap in an array
		repl = &JNode{kind: jArr, arr: []*JNode{p.node}}
	case 8: // alien field
		if p.node.kind != jObj {
			panic(pathEnd{kind: "infeasible"})
		}
		p.node.addKey(ConcStr("x-alien"), &JNode{kind: jNum, num: IntC(1)}, nil)
		return root
	}
	if p.parent == nil {
		return repl
	}
	if p.parent.kind == jArr {
		p.parent.arr[p.idx] = repl
	} else {
		p.parent.vals[p.idx] = repl
	}
	return root
}

func registerJSONMut() {
	{
		intrinsics["H.nondetJSONMut"] = func(e *Exec, th *Thread, a []Value) Value {
			tag := strArg(a[0])
			base := strArg(a[1])
			k := e.concInt(a[2].(*Term), "nondetJSONMut k")
			cap := e.concInt(a[3].(*Term), "nondetJSONMut cap")
			root, err := parseJSONText(base)
			if err != nil {
				panic(pathEnd{kind: "inconclusive", msg: "nondetJSONMut base: " + err.Error()})
			}
			seq := 0
			e.symbolise(root, tag, cap, &seq)
			for i := 0; i < k; i++ {
				fixed := -1
				if i == 0 {
					if v, ok := e.x.params["mutpos"]; ok {
						fixed = v
					}
				}
				if i > 0 || fixed < 0 {
					// "no further mutation" is an option from the second mutation on (and for unpartitioned runs)
					if e.choose("mutmore:"+tag, 2, nil, false) == 0 {
						break
					}
				}
				root = e.mutate(root, tag, cap, &seq, fixed)
			}
			e.nondets = append(e.nondets, NondetRec{Tag: tag, Kind: "json", json: root})
			return &BytesV{json: root}
		}
	}
}


// canon renders a concrete JSON tree with sorted keys (what encoding/json produces for generic values).
func (n *JNode) canon() (string, bool) {
	switch n.kind {
	case jNull:
		return "null", true
	case jBool:
		if !n.b.IsConst() {
			return "", false
		}
		if n.b.val == 1 {
			return "true", true
		}
		return "false", true
	case jNum:
		if n.tok != "" {
			return n.tok, true
		}
		if !n.num.IsConst() {
			return "", false
		}
		return strconv.FormatInt(n.num.SVal(), 10), true
	case jStr:
		c, ok := n.s.Concrete()
		if !ok {
			return "", false
		}
		b, _ := json.Marshal(c)
		return string(b), true
	case jArr:
		var ps []string
		for _, c := range n.arr {
			s, ok := c.canon()
			if !ok {
				return "", false
			}
			ps = append(ps, s)
		}
		return "[" + strings.Join(ps, ",") + "]", true
	case jObj:
		type kv struct{ k, v string }
		var kvs []kv
		for i := range n.keys {
			if c := n.cond(i); !c.IsConst() {
				return "", false
			} else if c.IsFalse() {
				continue
			}
			k, ok := n.keys[i].Concrete()
			if !ok {
				return "", false
			}
			v, ok := n.vals[i].canon()
			if !ok {
				return "", false
			}
			kb, _ := json.Marshal(k)
			kvs = append(kvs, kv{string(kb), v})
		}
		sort.Slice(kvs, func(i, j int) bool { return kvs[i].k < kvs[j].k })
		var ps []string
		for _, e := range kvs {
			ps = append(ps, e.k+":"+e.v)
		}
		return "{" + strings.Join(ps, ",") + "}", true
	}
	return "", false
}
