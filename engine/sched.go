package main

// Threads (one Go goroutine per symbolic thread, exactly one runs at a time),
// channels with waiter queues, select, mutexes, Once, WaitGroup, and the
// bounded cooperative scheduler.

import (
	"fmt"
	"go/types"

	"golang.org/x/tools/go/ssa"
)

const (
	tsRunnable = iota
	tsBlocked
	tsDone
)

type Thread struct {
	id      int
	name    string
	state   int
	ready   func() bool // for tsBlocked on a condition (mutex etc.); nil when waiting for a channel delivery
	resume  chan struct{}
	exited  chan struct{}
	parked  bool
	stack   []*ssa.Function
	wake    *wakeInfo // filled by the thread completing our channel operation
	waiting []*waiter
	group   int
	blockedOn string
}

type wakeInfo struct {
	caseIdx int
	val     Value
	ok      bool
	closedSend bool
}

type waiter struct {
	th      *Thread
	ch      *ChanObj
	send    bool
	val     Value
	caseIdx int
	dead    bool
}

func qOf(c *ChanObj) *ChanObj { return c }

func (e *Exec) newThread(name string) *Thread {
	t := &Thread{id: len(e.threads), name: name, resume: make(chan struct{}, 1), exited: make(chan struct{})}
	e.threads = append(e.threads, t)
	return t
}

type pathAbort struct{}

// threadExit is deferred in every thread goroutine: it converts the way the
// goroutine ended into a path end (first one wins) and signals exit.
func (e *Exec) threadExit(th *Thread, done chan pathEnd) {
	r := recover()
	defer close(th.exited)
	if e.aborted {
		return
	}
	var end pathEnd
	switch v := r.(type) {
	case nil:
		end = pathEnd{kind: "done"}
	case pathEnd:
		end = v
	case pathAbort:
		return
	case goPanic:
		// uncaught Go panic: the process crashes
		end = e.uncaughtPanic(th, v)
	default:
		end = pathEnd{kind: "inconclusive", msg: fmt.Sprintf("engine panic: %v", r)}
		if e.x.verbose {
			panic(r)
		}
	}
	e.aborted = true
	select {
	case done <- end:
	default:
	}
}

func (e *Exec) uncaughtPanic(th *Thread, p goPanic) pathEnd {
	label := "panic:" + p.label + "@" + p.site
	e.trace = append(e.trace, "P:"+p.label)
	e.x.nVerdict++
	r, model := e.x.solver.Check(e.pc, nil, e.wantTerms())
	if r == rSat {
		e.recordViolation(label, p.site, model, "uncaught panic in thread "+th.name)
	} else if r == rUnknown {
		e.x.inconclusive = append(e.x.inconclusive, "solver unknown at panic "+label)
	}
	return pathEnd{kind: "panic", msg: label}
}

// park gives the baton away and waits to be resumed.
func (e *Exec) park(th *Thread) {
	th.parked = true
	<-th.resume
	if e.aborted {
		panic(pathAbort{})
	}
	e.cur = th
}

func (e *Exec) runnable() []*Thread {
	var rs []*Thread
	for _, t := range e.threads {
		switch t.state {
		case tsRunnable:
			rs = append(rs, t)
		case tsBlocked:
			if t.ready != nil && t.ready() {
				rs = append(rs, t)
			}
		}
	}
	return rs
}

// switchFrom is called by the running thread th when it cannot continue (or
// chooses to yield). It returns when th is scheduled again.
func (e *Exec) switchFrom(th *Thread) {
	for {
		rs := e.runnable()
		if len(rs) == 0 {
			if e.fireTimer() {
				continue
			}
			// nothing can run
			if e.mainDone {
				panic(pathEnd{kind: "done", msg: "quiescent"})
			}
			e.deadlock(th)
		}
		var next *Thread
		if len(rs) == 1 || e.schedPolicy == 0 {
			next = rs[0]
			if e.schedPolicy == 0 && th.state != tsDone {
				// deterministic: prefer the lowest id other than the yielding thread
				for _, r := range rs {
					if r != th {
						next = r
						break
					}
				}
			}
		} else {
			k := e.choose("sched", len(rs), nil, false)
			e.sched = append(e.sched, rs[k].id)
			next = rs[k]
		}
		if next.state == tsBlocked {
			next.state = tsRunnable
			next.ready = nil
		}
		if next == th {
			return
		}
		next.parked = false
		next.resume <- struct{}{}
		if th.state == tsDone {
			// a finished thread never comes back; its goroutine waits for the abort
			th.parked = true
			<-th.resume
			panic(pathAbort{})
		}
		e.park(th)
		return
	}
}

// deadlock: no thread can run and the main (harness) thread has not finished.
func (e *Exec) deadlock(th *Thread) {
	main := e.threads[0]
	label := "blocked-forever:" + main.blockedOn
	e.trace = append(e.trace, "D:"+main.blockedOn)
	if e.expectBlockOK {
		panic(pathEnd{kind: "done", msg: "blocked (expected)"})
	}
	site := e.siteOf(main)
	e.x.nVerdict++
	r, model := e.x.solver.Check(e.pc, nil, e.wantTerms())
	if r == rSat {
		e.recordViolation(label+"@"+site, site, model, "no thread can make progress")
	}
	panic(pathEnd{kind: "deadlock", msg: label})
}

// drain runs after the harness function returned: remaining threads run until
// none can.
func (e *Exec) drain(main *Thread) {
	e.switchFrom(main)
}

// yield: a scheduling point where other threads may be chosen (pre-emption).
func (e *Exec) preemptPoint(th *Thread) {
	if e.preemptBudget <= 0 || e.local != nil || e.preemptOff {
		return
	}
	var others []*Thread
	for _, t := range e.runnable() {
		if t != th {
			others = append(others, t)
		}
	}
	if len(others) == 0 {
		return
	}
	k := e.choose("preempt", 1+len(others), nil, false)
	if k == 0 {
		return
	}
	e.preemptBudget--
	next := others[k-1]
	e.sched = append(e.sched, next.id)
	if next.state == tsBlocked {
		next.state = tsRunnable
		next.ready = nil
	}
	next.parked = false
	next.resume <- struct{}{}
	e.park(th)
}

// blockUntil blocks th until ready() holds.
func (e *Exec) blockUntil(th *Thread, what string, ready func() bool) {
	for !ready() {
		th.state = tsBlocked
		th.ready = ready
		th.blockedOn = what
		e.switchFrom(th)
	}
	th.state = tsRunnable
	th.ready = nil
}

// spawn starts a new thread running fn(args).
func (e *Exec) spawn(parent *Thread, name string, body func(t *Thread)) *Thread {
	t := e.newThread(name)
	t.group = parent.group
	done := e.doneCh
	go func() {
		defer e.threadExit(t, done)
		e.park(t)
		body(t)
		t.state = tsDone
		e.switchFrom(t)
	}()
	// wait until the goroutine is parked (it parks immediately; resume is buffered so no race)
	return t
}

// ---- channels -----------------------------------------------------------

func (e *Exec) makeChan(t types.Type, cap int) ChanV {
	e.chanSeq++
	return ChanV{c: &ChanObj{id: e.chanSeq, cap: cap, typ: t}}
}

func (e *Exec) wakeWaiter(w *waiter, info *wakeInfo) {
	t := w.th
	for _, o := range t.waiting {
		o.dead = true
	}
	t.waiting = nil
	t.wake = info
	t.state = tsRunnable
}

func firstLive(q *[]*waiter) *waiter {
	for len(*q) > 0 {
		w := (*q)[0]
		*q = (*q)[1:]
		if !w.dead {
			return w
		}
	}
	return nil
}

func hasLive(q []*waiter) bool {
	for _, w := range q {
		if !w.dead {
			return true
		}
	}
	return false
}

func (e *Exec) canSend(c *ChanObj) bool {
	if c == nil {
		return false
	}
	if c.closed {
		return true // will panic
	}
	return hasLive(qOf(c).recvq) || len(c.buf) < c.cap
}

func (e *Exec) canRecv(c *ChanObj) bool {
	if c == nil {
		return false
	}
	return len(c.buf) > 0 || c.closed || hasLive(qOf(c).sendq)
}

func (e *Exec) doSend(th *Thread, c *ChanObj, v Value) {
	if c.closed {
		e.raise(th, "send-on-closed-channel", nil)
	}
	q := qOf(c)
	if w := firstLive(&q.recvq); w != nil {
		e.wakeWaiter(w, &wakeInfo{caseIdx: w.caseIdx, val: v, ok: true})
		return
	}
	c.buf = append(c.buf, v)
}

func (e *Exec) doRecv(th *Thread, c *ChanObj) (Value, bool) {
	q := qOf(c)
	if len(c.buf) > 0 {
		v := c.buf[0]
		c.buf = c.buf[1:]
		if w := firstLive(&q.sendq); w != nil {
			c.buf = append(c.buf, w.val)
			e.wakeWaiter(w, &wakeInfo{caseIdx: w.caseIdx, ok: true})
		}
		return v, true
	}
	if w := firstLive(&q.sendq); w != nil {
		e.wakeWaiter(w, &wakeInfo{caseIdx: w.caseIdx, ok: true})
		return w.val, true
	}
	if c.closed {
		return e.zero(c.typ.Underlying().(*types.Chan).Elem()), false
	}
	panic("doRecv: not ready")
}

func (e *Exec) closeChan(th *Thread, c *ChanObj) {
	e.abandon("close")
	if c == nil {
		e.raise(th, "close-of-nil-channel", nil)
	}
	if c.closed {
		e.raise(th, "close-of-closed-channel", nil)
	}
	c.closed = true
	q := qOf(c)
	for {
		w := firstLive(&q.recvq)
		if w == nil {
			break
		}
		e.wakeWaiter(w, &wakeInfo{caseIdx: w.caseIdx, val: e.zero(c.typ.Underlying().(*types.Chan).Elem()), ok: false})
	}
	for {
		w := firstLive(&q.sendq)
		if w == nil {
			break
		}
		e.wakeWaiter(w, &wakeInfo{caseIdx: w.caseIdx, closedSend: true})
	}
}

type selCase struct {
	ch   *ChanObj
	send bool
	val  Value
}

// selectOp performs a select; returns chosen index (-1 = default), received value, ok.
func (e *Exec) selectOp(th *Thread, cases []selCase, hasDefault bool, what string) (int, Value, bool) {
	e.abandon("channel operation")
	e.preemptPoint(th)
	var ready []int
	for i, c := range cases {
		if c.ch == nil {
			continue
		}
		if c.send && e.canSend(c.ch) || !c.send && e.canRecv(c.ch) {
			ready = append(ready, i)
		}
	}
	if len(ready) > 0 {
		k := 0
		if len(ready) > 1 {
			k = e.choose("select", len(ready), nil, false)
		}
		i := ready[k]
		c := cases[i]
		if c.send {
			e.doSend(th, c.ch, c.val)
			return i, nil, false
		}
		v, ok := e.doRecv(th, c.ch)
		return i, v, ok
	}
	if hasDefault {
		return -1, nil, false
	}
	// block on all
	th.waiting = nil
	for i, c := range cases {
		if c.ch == nil {
			continue
		}
		w := &waiter{th: th, ch: c.ch, send: c.send, val: c.val, caseIdx: i}
		th.waiting = append(th.waiting, w)
		q := qOf(c.ch)
		if c.send {
			q.sendq = append(q.sendq, w)
		} else {
			q.recvq = append(q.recvq, w)
		}
	}
	th.state = tsBlocked
	th.ready = nil
	th.wake = nil
	th.blockedOn = what
	e.switchFrom(th)
	w := th.wake
	th.wake = nil
	if w == nil {
		panic(pathEnd{kind: "inconclusive", msg: "engine: thread resumed without wake info"})
	}
	if w.closedSend {
		e.raise(th, "send-on-closed-channel", nil)
	}
	return w.caseIdx, w.val, w.ok
}

// ---- mutex / once / waitgroup -------------------------------------------

type mutexState struct {
	locked  bool
	readers int
	owner   int
}
type onceState struct {
	done    bool
	running bool
}
type wgState struct{ n int }

func (e *Exec) mutexOf(p PtrV) *mutexState {
	k := p.key()
	m := e.mutexes[k]
	if m == nil {
		m = &mutexState{}
		e.mutexes[k] = m
	}
	return m
}

func (e *Exec) lock(th *Thread, p PtrV, write bool) {
	e.abandon("lock")
	e.preemptPoint(th)
	m := e.mutexOf(p)
	if write {
		e.blockUntil(th, "mutex.Lock", func() bool { return !m.locked && m.readers == 0 })
		m.locked = true
		m.owner = th.id
	} else {
		e.blockUntil(th, "mutex.RLock", func() bool { return !m.locked })
		m.readers++
	}
}

func (e *Exec) unlock(th *Thread, p PtrV, write bool) {
	e.abandon("unlock")
	m := e.mutexOf(p)
	if write {
		if !m.locked {
			e.raise(th, "unlock-of-unlocked-mutex", nil)
		}
		m.locked = false
	} else {
		if m.readers == 0 {
			e.raise(th, "runlock-of-unlocked-rwmutex", nil)
		}
		m.readers--
	}
	e.preemptPoint(th)
}
