package main

// A few more standard-library entry points that a plausible change to lime-go may start using
// (typed atomics, timers, time.Since/Until, errors.Unwrap): without a model the engine can only answer
// "unsupported", which makes the run inconclusive.

import "go/types"

type timerState struct {
	ctx *CtxData // the armed deadline (nil when stopped or fired and drained)
	ch  *ChanObj
}

func (e *Exec) atomicCell(v Value, zero Value) (string, Value) {
	k := v.(PtrV).key()
	if cur, ok := e.atomics[k]; ok {
		return k, cur
	}
	return k, zero
}

func registerStd2() {
	reg := func(name string, f intrinsic) { intrinsics[name] = f }

	// ---- time ---------------------------------------------------------------------------------
	reg("time.Since", func(e *Exec, th *Thread, a []Value) Value {
		return BVBin("bvsub", e.clockRead(), a[0].(TimeV).t)
	})
	reg("time.Until", func(e *Exec, th *Thread, a []Value) Value {
		return BVBin("bvsub", a[0].(TimeV).t, e.clockRead())
	})
	reg("(time.Time).UnixNano", func(e *Exec, th *Thread, a []Value) Value { return a[0].(TimeV).t })

	// ---- errors -------------------------------------------------------------------------------
	reg("errors.Unwrap", func(e *Exec, th *Thread, a []Value) Value {
		iv, _ := a[0].(IfaceV)
		if iv.t == nil {
			return IfaceV{}
		}
		if p, ok := iv.v.(PtrV); ok && p.obj != nil {
			if d, ok := p.obj.val.(*ErrData); ok {
				if d.wrapped == nil {
					return IfaceV{}
				}
				return d.wrapped
			}
		}
		if m := e.methodByName(iv.t, "Unwrap"); m != nil {
			return e.invoke(th, iv, m, nil)
		}
		return IfaceV{}
	})

	// ---- sync/atomic typed values (side table keyed by address; every access is a scheduling point) ----
	boolZero, intZero := Value(tFalse), Value(IntC(0))
	for _, tn := range []string{"Bool", "Int32", "Int64", "Uint32", "Uint64"} {
		tn := tn
		zero := intZero
		switch tn {
		case "Bool":
			zero = boolZero
		case "Int32", "Uint32":
			zero = BVC(32, 0)
		}
		recv := "(*sync/atomic." + tn + ")."
		reg(recv+"Load", func(e *Exec, th *Thread, a []Value) Value {
			e.preemptPoint(th)
			_, cur := e.atomicCell(a[0], zero)
			return cur
		})
		reg(recv+"Store", func(e *Exec, th *Thread, a []Value) Value {
			e.preemptPoint(th)
			k, _ := e.atomicCell(a[0], zero)
			e.atomics[k] = a[1]
			return nil
		})
		reg(recv+"Swap", func(e *Exec, th *Thread, a []Value) Value {
			e.preemptPoint(th)
			k, cur := e.atomicCell(a[0], zero)
			e.atomics[k] = a[1]
			return cur
		})
		reg(recv+"CompareAndSwap", func(e *Exec, th *Thread, a []Value) Value {
			e.preemptPoint(th)
			k, cur := e.atomicCell(a[0], zero)
			if e.branch(Eq(cur.(*Term), a[1].(*Term))) {
				e.atomics[k] = a[2]
				return tTrue
			}
			return tFalse
		})
		if tn != "Bool" {
			reg(recv+"Add", func(e *Exec, th *Thread, a []Value) Value {
				e.preemptPoint(th)
				k, cur := e.atomicCell(a[0], zero)
				nv := BVBin("bvadd", cur.(*Term), a[1].(*Term))
				e.atomics[k] = nv
				return nv
			})
		}
	}

	// ---- timers: NewTimer / Stop / Reset; the channel is closed when the timer fires (the value read is
	// the zero time; lime-go does not look at it) ------------------------------------------------------
	arm := func(e *Exec, d *Term) (*CtxData, *ChanObj) {
		now := e.clockRead()
		e.ctxSeq++
		c := &CtxData{id: e.ctxSeq, err: IfaceV{}, cancelable: true, hasDeadline: true, deadline: BVBin("bvadd", now, d)}
		ct := types.NewChan(types.RecvOnly, e.lookupType("time", "Time"))
		c.done = e.makeChan(ct, 0).c
		e.timers = append(e.timers, c)
		return c, c.done
	}
	reg("time.NewTimer", func(e *Exec, th *Thread, a []Value) Value {
		c, ch := arm(e, a[0].(*Term))
		st := &timerState{ctx: c, ch: ch}
		tt := e.lookupType("time", "Timer")
		obj := e.newObj(e.zero(tt), tt, "time.Timer")
		p := PtrV{obj: obj}
		e.timerStates[p.key()] = st
		// field C
		e.store(p.sub(0), ChanV{c: ch})
		return p
	})
	reg("(*time.Timer).Reset", func(e *Exec, th *Thread, a []Value) Value {
		p := a[0].(PtrV)
		st := e.timerStates[p.key()]
		if st == nil {
			panic(e.unsupported("Reset of a timer not created by NewTimer"))
		}
		active := st.ctx != nil && st.ctx.err.(IfaceV).t == nil
		if st.ctx != nil {
			st.ctx.err = e.sentinel("context.Canceled")
		}
		c, ch := arm(e, a[1].(*Term))
		st.ctx, st.ch = c, ch
		e.store(p.sub(0), ChanV{c: ch})
		return BoolC(active)
	})
	reg("(*time.Timer).Stop", func(e *Exec, th *Thread, a []Value) Value {
		st := e.timerStates[a[0].(PtrV).key()]
		if st == nil || st.ctx == nil {
			return tFalse
		}
		fired := st.ctx.err.(IfaceV).t != nil
		// disarm: a stopped timer never fires
		st.ctx.err = e.sentinel("context.Canceled")
		st.ctx = nil
		return BoolC(!fired)
	})
}
