package main

// Function-level state merging. A call to a side-effect-light function is
// explored locally (all of its feasible paths), the outcomes are grouped by
// shape, each group is merged into one symbolic outcome (ite over the local
// path conditions, for results and for heap writes), and the global
// exploration forks only over the groups. This is what keeps String()/Parse*/
// MarshalText/Validate-style helpers from multiplying the number of paths.

import (
	"fmt"
	"go/token"
	"go/types"
	"sort"
	"strings"

	"golang.org/x/tools/go/ssa"
)

type localRun struct {
	prefix   []decision
	depth    int
	entrySeq int
	entryMap int
	saved    map[*Obj]Value
	order    []*Obj
}

type mergeAbandon struct{ why string }

type localOutcome struct {
	cond    *Term
	result  Value
	effects map[*Obj]Value
}

var mergeSafeIntrinsics = map[string]bool{
	"strings.Split": true, "strings.HasPrefix": true, "fmt.Sprintf": true, "fmt.Errorf": true,
	"errors.New": true, "errors.Is": true, "log.Printf": true, "log.Println": true, "fmt.Printf": true, "fmt.Println": true,
	"reflect.ValueOf": true, "(reflect.Value).IsNil": true, "(reflect.Value).IsZero": true, "(reflect.Value).Len": true,
	"(reflect.Value).Index": true, "(reflect.Value).Interface": true,
	"(*encoding/base64.Encoding).EncodeToString": true, "go.uber.org/multierr.Combine": true,
	"net/url.Parse": true, "(*net/url.URL).String": true, "(*net/url.URL).IsAbs": true,
	"H.vStrHas": true, "H.vConcat": true, "H.vDeepEqual": true,
}

func (x *Explorer) mergeable(fn *ssa.Function) bool {
	if v, ok := x.mergeCache[fn]; ok {
		return v
	}
	x.mergeCache[fn] = true // optimistic on cycles
	ok := x.mergeable1(fn)
	x.mergeCache[fn] = ok
	return ok
}

func (x *Explorer) intrinsicName(fn *ssa.Function) (string, bool) {
	if fn.Pkg == x.pkg {
		if _, ok := intrinsics["H."+fn.Name()]; ok && fn.Signature.Recv() == nil {
			return "H." + fn.Name(), true
		}
		return "", false
	}
	if _, ok := intrinsics[fn.String()]; ok {
		return fn.String(), true
	}
	return "", false
}

func (x *Explorer) mergeable1(fn *ssa.Function) bool {
	if name, ok := x.intrinsicName(fn); ok {
		return mergeSafeIntrinsics[name]
	}
	if fn.Blocks == nil {
		return fn.Pkg != nil && isInitFunc(fn)
	}
	for _, b := range fn.Blocks {
		for _, ins := range b.Instrs {
			switch in := ins.(type) {
			case *ssa.Go, *ssa.Select, *ssa.Send:
				return false
			case *ssa.UnOp:
				if in.Op == token.ARROW {
					return false
				}
			case ssa.CallInstruction:
				c := in.Common()
				if c.IsInvoke() {
					if !x.invokeMergeable(c.Method) {
						return false
					}
					continue
				}
				switch f := c.Value.(type) {
				case *ssa.Function:
					if !x.mergeable(f) {
						return false
					}
				case *ssa.Builtin:
					if f.Name() == "close" {
						return false
					}
				case *ssa.MakeClosure:
					if !x.mergeable(f.Fn.(*ssa.Function)) {
						return false
					}
				}
			}
		}
	}
	return true
}

// invokeMergeable: every implementation of the method among the package's
// named types must be mergeable (class-hierarchy approximation).
func (x *Explorer) invokeMergeable(m *types.Func) bool {
	name := m.Name()
	if name == "Error" || name == "String" && m.Pkg() == nil {
		return true
	}
	for _, mem := range x.pkg.Members {
		t, ok := mem.(*ssa.Type)
		if !ok {
			continue
		}
		for _, ty := range []types.Type{t.Type(), types.NewPointer(t.Type())} {
			ms := x.prog.MethodSets.MethodSet(ty)
			for i := 0; i < ms.Len(); i++ {
				if ms.At(i).Obj().Name() != name {
					continue
				}
				f := x.prog.MethodValue(ms.At(i))
				if f != nil && !x.mergeable(f) {
					return false
				}
			}
		}
	}
	return true
}

// setRoot replaces the whole value of an object (logged for an enclosing local run).
func (e *Exec) setRoot(ob *Obj, v Value) {
	if l := e.local; l != nil && ob.id <= l.entrySeq {
		if _, ok := l.saved[ob]; !ok {
			l.saved[ob] = ob.val
			l.order = append(l.order, ob)
		}
	}
	ob.val = v
}

func (e *Exec) abandon(why string) {
	if e.local != nil {
		panic(mergeAbandon{why: why})
	}
}

func (e *Exec) localChoose(kind string, n int, conds []*Term, exhaustive bool) int {
	l := e.local
	cond := func(i int) *Term {
		if conds == nil || conds[i] == nil {
			return tTrue
		}
		return conds[i]
	}
	if l.depth < len(l.prefix) {
		d := &l.prefix[l.depth]
		if d.n != n || d.kind != kind {
			panic(pathEnd{kind: "inconclusive", msg: "engine: nondeterministic local re-execution"})
		}
		if !d.checked {
			c := d.choice
			for c < n && !e.feasible(cond(c)) {
				c++
			}
			if c >= n {
				d.choice = n - 1
				d.checked = true
				panic(pathEnd{kind: "infeasible"})
			}
			d.choice = c
			d.checked = true
		}
		l.depth++
		e.assume(cond(d.choice))
		return d.choice
	}
	c := 0
	for c < n {
		if exhaustive && c == n-1 && c > 0 {
			break
		}
		if e.feasible(cond(c)) {
			break
		}
		c++
	}
	if c >= n {
		panic(pathEnd{kind: "infeasible"})
	}
	l.prefix = append(l.prefix, decision{choice: c, n: n, checked: true, kind: kind})
	if e.x.decKinds == nil {
		e.x.decKinds = map[string]int{}
	}
	if e.cur != nil && len(e.cur.stack) > 0 {
		e.x.decKinds["local:"+kind+"@"+e.cur.stack[len(e.cur.stack)-1].Name()]++
	}
	l.depth++
	e.assume(cond(c))
	return c
}

func (l *localRun) backtrack() bool {
	for len(l.prefix) > 0 {
		d := &l.prefix[len(l.prefix)-1]
		if d.choice+1 < d.n {
			d.choice++
			d.checked = false
			return true
		}
		l.prefix = l.prefix[:len(l.prefix)-1]
	}
	return false
}

// callMerged runs fn with local exploration and merging. ok=false: merging was
// abandoned and nothing was changed; the caller runs the call normally.
func (e *Exec) callMerged(th *Thread, fn *ssa.Function, free []Value, args []Value) (ret Value, ok bool) {
	outer := e.local
	l := &localRun{entrySeq: e.objSeq, entryMap: e.mapSeq}
	pcLen := len(e.pc)
	pcChecked := e.pcChecked
	stackLen := len(th.stack)
	symSeq := map[string]int{}
	for k, v := range e.symSeq {
		symSeq[k] = v
	}
	var outs []localOutcome
	abandoned := ""
	restore := func() {
		for _, o := range l.order {
			o.val = l.saved[o]
		}
		e.pc = e.pc[:pcLen]
		if e.pcChecked > pcLen {
			e.pcChecked = pcChecked
		}
		th.stack = th.stack[:stackLen]
	}
	e.x.nMergeAttempts++
	for {
		l.depth = 0
		l.saved = map[*Obj]Value{}
		l.order = nil
		e.local = l
		var res Value
		status := func() (st string) {
			defer func() {
				if r := recover(); r != nil {
					switch v := r.(type) {
					case mergeAbandon:
						abandoned = v.why
						st = "abandon"
					case goPanic:
						abandoned = "panic " + v.label
						st = "abandon"
					case pathEnd:
						if v.kind == "infeasible" {
							st = "infeasible"
							return
						}
						panic(r)
					default:
						panic(r)
					}
				}
			}()
			res = e.runBody(th, fn, free, args)
			return "ok"
		}()
		e.local = outer
		if status == "ok" {
			eff := map[*Obj]Value{}
			for _, o := range l.order {
				eff[o] = o.val
			}
			outs = append(outs, localOutcome{cond: And(e.pc[pcLen:]...), result: res, effects: eff})
		}
		restore()
		if status == "abandon" || len(outs) > 64 {
			if len(outs) > 64 {
				abandoned = "too many local paths"
			}
			// roll the fresh-symbol counters back so that the normal run names symbols identically
			e.symSeq = symSeq
			e.x.nMergeAbandoned++
			if e.x.verbose {
				fmt.Printf("  merge abandoned for %s: %s\n", fn, abandoned)
			}
			return nil, false
		}
		if !l.backtrack() {
			break
		}
	}
	if len(outs) == 0 {
		panic(pathEnd{kind: "infeasible"})
	}
	// group by shape
	type group struct {
		sig  string
		outs []localOutcome
	}
	var groups []*group
	bySig := map[string]*group{}
	for _, o := range outs {
		sig := e.outcomeSig(l, o)
		g := bySig[sig]
		if g == nil {
			g = &group{sig: sig}
			bySig[sig] = g
			groups = append(groups, g)
		}
		g.outs = append(g.outs, o)
	}
	k := 0
	if len(groups) > 1 {
		conds := make([]*Term, len(groups))
		for i, g := range groups {
			var cs []*Term
			for _, o := range g.outs {
				cs = append(cs, o.cond)
			}
			conds[i] = Or(cs...)
		}
		k = e.choose("merge:"+fn.Name(), len(groups), conds, true)
	}
	g := groups[k]
	e.x.nMerged += len(g.outs) - 1
	conds := make([]*Term, len(g.outs))
	vals := make([]Value, len(g.outs))
	for i, o := range g.outs {
		conds[i] = o.cond
		vals[i] = o.result
	}
	m := &merger{e: e, l: l, conds: conds, memo: map[string]*Obj{}}
	merged, mok := m.merge(vals, 0)
	if !mok {
		panic(pathEnd{kind: "inconclusive", msg: "engine: merge of same-shape results failed in " + fn.String()})
	}
	// heap effects
	objs := map[*Obj]bool{}
	for _, o := range g.outs {
		for ob := range o.effects {
			objs[ob] = true
		}
	}
	var olist []*Obj
	for ob := range objs {
		olist = append(olist, ob)
	}
	sort.Slice(olist, func(i, j int) bool { return olist[i].id < olist[j].id })
	for _, ob := range olist {
		vs := make([]Value, len(g.outs))
		for i, o := range g.outs {
			if nv, ok := o.effects[ob]; ok {
				vs[i] = nv
			} else {
				vs[i] = ob.val
			}
		}
		mv, mok := m.merge(vs, 0)
		if !mok {
			panic(pathEnd{kind: "inconclusive", msg: "engine: merge of same-shape heap effects failed in " + fn.String()})
		}
		e.setRoot(ob, mv)
	}
	return merged, true
}

// ---- shape signatures -------------------------------------------------------

func (e *Exec) outcomeSig(l *localRun, o localOutcome) string {
	var sb strings.Builder
	s := &sigger{e: e, l: l, seen: map[*Obj]int{}}
	s.sig(&sb, o.result, 0)
	var objs []*Obj
	for ob := range o.effects {
		objs = append(objs, ob)
	}
	sort.Slice(objs, func(i, j int) bool { return objs[i].id < objs[j].id })
	for _, ob := range objs {
		fmt.Fprintf(&sb, "|E%d:", ob.id)
		s.sig(&sb, o.effects[ob], 0)
	}
	return sb.String()
}

type sigger struct {
	e    *Exec
	l    *localRun
	seen map[*Obj]int
}

func (s *sigger) sig(sb *strings.Builder, v Value, depth int) {
	if depth > 40 {
		sb.WriteString("DEEP")
		return
	}
	switch x := v.(type) {
	case nil:
		sb.WriteString("nil")
	case *Term:
		fmt.Fprintf(sb, "T%d", x.w)
	case *StrV:
		sb.WriteString("S")
	case *StructV:
		sb.WriteString("{")
		for _, f := range x.f {
			s.sig(sb, f, depth+1)
			sb.WriteString(",")
		}
		sb.WriteString("}")
	case *ArrayV:
		sb.WriteString("[")
		for _, f := range x.e {
			if lz, ok := f.(*LazyV); ok {
				_ = lz
				sb.WriteString("L,")
				continue
			}
			s.sig(sb, f, depth+1)
			sb.WriteString(",")
		}
		sb.WriteString("]")
	case TupleV:
		sb.WriteString("(")
		for _, f := range x {
			s.sig(sb, f, depth+1)
			sb.WriteString(",")
		}
		sb.WriteString(")")
	case PtrV:
		if x.obj == nil {
			sb.WriteString("P0")
			return
		}
		if x.obj.id > s.l.entrySeq {
			if n, ok := s.seen[x.obj]; ok {
				fmt.Fprintf(sb, "PF#%d%v", n, x.path)
				return
			}
			s.seen[x.obj] = len(s.seen)
			fmt.Fprintf(sb, "PF%v(", x.path)
			if _, isErr := x.obj.val.(*ErrData); isErr {
				sb.WriteString("err")
			} else if c, isCtx := x.obj.val.(*CtxData); isCtx {
				fmt.Fprintf(sb, "ctx%d", c.id)
			} else {
				s.sig(sb, x.obj.val, depth+1)
			}
			sb.WriteString(")")
			return
		}
		sb.WriteString("P" + x.key())
	case IfaceV:
		if x.t == nil {
			sb.WriteString("I0")
			return
		}
		sb.WriteString("I<" + x.t.String() + ">")
		s.sig(sb, x.v, depth+1)
	case *SliceV:
		if x.IsNil() {
			sb.WriteString("L0")
			return
		}
		if x.obj.id > s.l.entrySeq {
			fmt.Fprintf(sb, "LF(%d,%d,%d,%v:", x.off, x.len, x.cap, x.symLen != nil)
			s.sig(sb, x.obj.val, depth+1)
			sb.WriteString(")")
			return
		}
		fmt.Fprintf(sb, "L%d(%d,%d,%d)", x.obj.id, x.off, x.len, x.cap)
	case *BytesV:
		switch {
		case x == nil || x.nilb:
			sb.WriteString("B0")
		case x.str != nil:
			sb.WriteString("BS")
		default:
			sb.WriteString("BJ")
			jsonSig(sb, x.json)
		}
	case MapV:
		if x.m == nil {
			sb.WriteString("M0")
		} else if x.m.id > s.l.entryMap {
			fmt.Fprintf(sb, "MF%d(", len(x.m.entries))
			for _, en := range x.m.entries {
				s.sig(sb, en.k, depth+1)
				sb.WriteString(":")
				s.sig(sb, en.v, depth+1)
				sb.WriteString(",")
			}
			sb.WriteString(")")
		} else {
			fmt.Fprintf(sb, "M%d", x.m.id)
		}
	case ChanV:
		if x.c == nil {
			sb.WriteString("C0")
		} else {
			fmt.Fprintf(sb, "C%d", x.c.id)
		}
	case *FuncV:
		if x.IsNil() {
			sb.WriteString("F0")
		} else if x.fn != nil {
			fmt.Fprintf(sb, "F%s/%d", x.fn.String(), len(x.free))
			for _, fv := range x.free {
				s.sig(sb, fv, depth+1)
			}
		} else {
			fmt.Fprintf(sb, "Fi%p", x)
		}
	case TimeV:
		sb.WriteString("Tm")
	case OpaqueV:
		if jn, ok := x.data.(*JNode); ok {
			sb.WriteString("OJ")
			jsonSig(sb, jn)
		} else {
			fmt.Fprintf(sb, "O%s:%v", x.kind, x.data)
		}
	case ReflectV:
		sb.WriteString("R")
		s.sig(sb, x.v, depth+1)
	case *LazyV:
		sb.WriteString("Lz")
	case *ErrData:
		sb.WriteString("err")
	default:
		fmt.Fprintf(sb, "?%T%p", v, v)
	}
}

func jsonSig(sb *strings.Builder, n *JNode) {
	switch n.kind {
	case jArr:
		sb.WriteString("[")
		for _, c := range n.arr {
			jsonSig(sb, c)
		}
		sb.WriteString("]")
	case jObj:
		sb.WriteString("{")
		for i := range n.keys {
			if k, ok := n.keys[i].Concrete(); ok {
				sb.WriteString(k)
			} else {
				sb.WriteString("?")
			}
			sb.WriteString(":")
			jsonSig(sb, n.vals[i])
		}
		if n.open {
			fmt.Fprintf(sb, "open%p", n)
		}
		sb.WriteString("}")
	case jLazy:
		fmt.Fprintf(sb, "lazy%p", n)
	default:
		fmt.Fprintf(sb, "k%d", n.kind)
	}
}

// ---- merging ---------------------------------------------------------------

type merger struct {
	e     *Exec
	l     *localRun
	conds []*Term
	memo  map[string]*Obj
}

func (m *merger) iteTerms(ts []*Term) *Term {
	r := ts[len(ts)-1]
	for i := len(ts) - 2; i >= 0; i-- {
		r = Ite(m.conds[i], ts[i], r)
	}
	return r
}

func allSame(vs []Value) bool {
	for _, v := range vs[1:] {
		if v != vs[0] {
			return false
		}
	}
	return true
}

func (m *merger) merge(vs []Value, depth int) (Value, bool) {
	if len(vs) == 1 {
		return vs[0], true
	}
	if depth > 40 {
		return nil, false
	}
	switch x := vs[0].(type) {
	case nil:
		for _, v := range vs {
			if v != nil {
				return nil, false
			}
		}
		return nil, true
	case *Term:
		ts := make([]*Term, len(vs))
		for i, v := range vs {
			t, ok := v.(*Term)
			if !ok || t.w != x.w {
				return nil, false
			}
			ts[i] = t
		}
		return m.iteTerms(ts), true
	case *StrV:
		capN := 0
		ss := make([]*StrV, len(vs))
		for i, v := range vs {
			s, ok := v.(*StrV)
			if !ok {
				return nil, false
			}
			ss[i] = s
			if len(s.b) > capN {
				capN = len(s.b)
			}
		}
		ns := make([]*Term, len(vs))
		for i := range ss {
			ns[i] = ss[i].n
		}
		out := &StrV{n: m.iteTerms(ns), b: make([]*Term, capN)}
		for k := 0; k < capN; k++ {
			bs := make([]*Term, len(vs))
			for i := range ss {
				bs[i] = ss[i].at(k)
			}
			out.b[k] = m.iteTerms(bs)
		}
		return out, true
	case *StructV:
		out := &StructV{f: make([]Value, len(x.f))}
		for k := range x.f {
			col := make([]Value, len(vs))
			for i, v := range vs {
				s, ok := v.(*StructV)
				if !ok || len(s.f) != len(x.f) {
					return nil, false
				}
				col[i] = s.f[k]
			}
			r, ok := m.merge(col, depth+1)
			if !ok {
				return nil, false
			}
			out.f[k] = r
		}
		return out, true
	case *ArrayV:
		out := &ArrayV{e: make([]Value, len(x.e))}
		for k := range x.e {
			col := make([]Value, len(vs))
			for i, v := range vs {
				s, ok := v.(*ArrayV)
				if !ok || len(s.e) != len(x.e) {
					return nil, false
				}
				el := s.e[k]
				if lz, ok := el.(*LazyV); ok {
					if lz.val == nil {
						lz.val = lz.f()
					}
					el = lz.val
				}
				col[i] = el
			}
			r, ok := m.merge(col, depth+1)
			if !ok {
				return nil, false
			}
			out.e[k] = r
		}
		return out, true
	case TupleV:
		out := make(TupleV, len(x))
		for k := range x {
			col := make([]Value, len(vs))
			for i, v := range vs {
				s, ok := v.(TupleV)
				if !ok || len(s) != len(x) {
					return nil, false
				}
				col[i] = s[k]
			}
			r, ok := m.merge(col, depth+1)
			if !ok {
				return nil, false
			}
			out[k] = r
		}
		return out, true
	case PtrV:
		same := true
		for _, v := range vs {
			p, ok := v.(PtrV)
			if !ok {
				return nil, false
			}
			if p.key() != x.key() {
				same = false
			}
		}
		if same {
			return x, true
		}
		// fresh objects with equal paths: merge contents into one new object
		key := ""
		col := make([]Value, len(vs))
		for i, v := range vs {
			p := v.(PtrV)
			if p.obj == nil || p.obj.id <= m.l.entrySeq || fmt.Sprint(p.path) != fmt.Sprint(x.path) {
				return nil, false
			}
			key += fmt.Sprintf("%d,", p.obj.id)
			col[i] = p.obj.val
		}
		if o, ok := m.memo[key]; ok {
			return PtrV{obj: o, path: x.path}, true
		}
		no := m.e.newObj(nil, x.obj.typ, x.obj.name)
		m.memo[key] = no
		if ed, ok := col[0].(*ErrData); ok {
			// errors are opaque: any representative will do
			no.val = ed
			return PtrV{obj: no, path: x.path}, true
		}
		r, ok := m.merge(col, depth+1)
		if !ok {
			return nil, false
		}
		no.val = r
		return PtrV{obj: no, path: x.path}, true
	case IfaceV:
		col := make([]Value, len(vs))
		for i, v := range vs {
			iv, ok := v.(IfaceV)
			if !ok {
				return nil, false
			}
			if (iv.t == nil) != (x.t == nil) {
				return nil, false
			}
			if x.t != nil && !types.Identical(iv.t, x.t) {
				return nil, false
			}
			col[i] = iv.v
		}
		if x.t == nil {
			return x, true
		}
		r, ok := m.merge(col, depth+1)
		if !ok {
			return nil, false
		}
		return IfaceV{t: x.t, v: r}, true
	case *SliceV:
		allNil := true
		for _, v := range vs {
			s, ok := v.(*SliceV)
			if !ok {
				return nil, false
			}
			if !s.IsNil() {
				allNil = false
			}
		}
		if allNil {
			return x, true
		}
		same := true
		for _, v := range vs {
			s := v.(*SliceV)
			if s.IsNil() || x.IsNil() {
				return nil, false
			}
			if s.obj != x.obj || s.off != x.off || s.len != x.len || s.cap != x.cap || s.symLen != x.symLen {
				same = false
			}
		}
		if same {
			return x, true
		}
		col := make([]Value, len(vs))
		lens := make([]*Term, len(vs))
		anySym := false
		for i, v := range vs {
			s := v.(*SliceV)
			if s.obj.id <= m.l.entrySeq || s.off != x.off || s.len != x.len || s.cap != x.cap {
				return nil, false
			}
			col[i] = s.obj.val
			if s.symLen != nil {
				anySym = true
				lens[i] = s.symLen
			} else {
				lens[i] = IntC(int64(s.len))
			}
		}
		r, ok := m.merge(col, depth+1)
		if !ok {
			return nil, false
		}
		out := &SliceV{obj: m.e.newObj(r, nil, "merged"), off: x.off, len: x.len, cap: x.cap}
		if anySym {
			out.symLen = m.iteTerms(lens)
		}
		return out, true
	case *BytesV:
		allNil := true
		allStr := true
		allJSON := true
		for _, v := range vs {
			b, ok := v.(*BytesV)
			if !ok {
				return nil, false
			}
			if b != nil && !b.nilb {
				allNil = false
			}
			if b == nil || b.nilb || b.str == nil {
				allStr = false
			}
			if b == nil || b.nilb || b.json == nil {
				allJSON = false
			}
		}
		if allNil {
			return x, true
		}
		if allStr {
			col := make([]Value, len(vs))
			for i, v := range vs {
				col[i] = v.(*BytesV).str
			}
			r, ok := m.merge(col, depth+1)
			if !ok {
				return nil, false
			}
			return &BytesV{str: r.(*StrV)}, true
		}
		if allJSON {
			ns := make([]*JNode, len(vs))
			for i, v := range vs {
				ns[i] = v.(*BytesV).json
			}
			r, ok := m.mergeJSON(ns)
			if !ok {
				return nil, false
			}
			return &BytesV{json: r}, true
		}
		return nil, false
	case MapV:
		allSameM := true
		for _, v := range vs {
			mv, ok := v.(MapV)
			if !ok {
				return nil, false
			}
			if mv.m != x.m {
				allSameM = false
			}
		}
		if allSameM {
			return x, true
		}
		// fresh maps with pairwise mergeable entries
		n := -1
		for _, v := range vs {
			mv := v.(MapV)
			if mv.m == nil || mv.m.id <= m.l.entryMap {
				return nil, false
			}
			if n >= 0 && len(mv.m.entries) != n {
				return nil, false
			}
			n = len(mv.m.entries)
		}
		m.e.mapSeq++
		out := &MapObj{id: m.e.mapSeq, typ: x.m.typ}
		for k := 0; k < n; k++ {
			ks := make([]Value, len(vs))
			es := make([]Value, len(vs))
			for i, v := range vs {
				ks[i] = v.(MapV).m.entries[k].k
				es[i] = v.(MapV).m.entries[k].v
			}
			mk, ok1 := m.merge(ks, depth+1)
			me, ok2 := m.merge(es, depth+1)
			if !ok1 || !ok2 {
				return nil, false
			}
			out.entries = append(out.entries, MapEntry{k: mk, v: me})
		}
		return MapV{m: out}, true
	case ChanV:
		for _, v := range vs {
			c, ok := v.(ChanV)
			if !ok || c.c != x.c {
				return nil, false
			}
		}
		return x, true
	case *FuncV:
		for _, v := range vs {
			f, ok := v.(*FuncV)
			if !ok {
				return nil, false
			}
			if f.IsNil() != x.IsNil() {
				return nil, false
			}
			if !x.IsNil() && (f.fn != x.fn || len(f.free) != len(x.free)) {
				return nil, false
			}
			if !x.IsNil() && x.fn == nil && f != x {
				return nil, false
			}
		}
		if x.IsNil() || len(x.free) == 0 {
			return x, true
		}
		out := &FuncV{fn: x.fn, free: make([]Value, len(x.free))}
		for k := range x.free {
			col := make([]Value, len(vs))
			for i, v := range vs {
				col[i] = v.(*FuncV).free[k]
			}
			r, ok := m.merge(col, depth+1)
			if !ok {
				return nil, false
			}
			out.free[k] = r
		}
		return out, true
	case TimeV:
		ts := make([]*Term, len(vs))
		for i, v := range vs {
			t, ok := v.(TimeV)
			if !ok {
				return nil, false
			}
			ts[i] = t.t
		}
		return TimeV{t: m.iteTerms(ts)}, true
	case OpaqueV:
		if jn, ok := x.data.(*JNode); ok {
			ns := []*JNode{jn}
			for _, v := range vs[1:] {
				o, ok := v.(OpaqueV)
				if !ok {
					return nil, false
				}
				j2, ok := o.data.(*JNode)
				if !ok {
					return nil, false
				}
				ns = append(ns, j2)
			}
			r, ok := m.mergeJSON(ns)
			if !ok {
				return nil, false
			}
			return OpaqueV{kind: x.kind, data: r}, true
		}
		for _, v := range vs {
			o, ok := v.(OpaqueV)
			if !ok || o.kind != x.kind || o.data != x.data {
				return nil, false
			}
		}
		return x, true
	case ReflectV:
		col := make([]Value, len(vs))
		for i, v := range vs {
			r, ok := v.(ReflectV)
			if !ok {
				return nil, false
			}
			col[i] = r.v
		}
		r, ok := m.merge(col, depth+1)
		if !ok {
			return nil, false
		}
		return ReflectV{v: r}, true
	case *ErrData:
		return x, true
	case *CtxData:
		if allSame(vs) {
			return x, true
		}
		return nil, false
	}
	if allSame(vs) {
		return vs[0], true
	}
	return nil, false
}

func (m *merger) mergeJSON(ns []*JNode) (*JNode, bool) {
	same := true
	for _, n := range ns {
		if n != ns[0] {
			same = false
		}
	}
	if same {
		return ns[0], true
	}
	k := ns[0].kind
	for _, n := range ns {
		if n.kind != k || n.open || n.kind == jLazy {
			return nil, false
		}
	}
	out := &JNode{kind: k}
	switch k {
	case jNull:
		return out, true
	case jBool:
		ts := make([]*Term, len(ns))
		for i, n := range ns {
			ts[i] = n.b
		}
		out.b = m.iteTerms(ts)
	case jNum:
		ts := make([]*Term, len(ns))
		for i, n := range ns {
			ts[i] = n.num
		}
		out.num = m.iteTerms(ts)
	case jStr:
		col := make([]Value, len(ns))
		for i, n := range ns {
			col[i] = n.s
		}
		r, ok := m.merge(col, 0)
		if !ok {
			return nil, false
		}
		out.s = r.(*StrV)
	case jArr:
		for _, n := range ns {
			if len(n.arr) != len(ns[0].arr) {
				return nil, false
			}
		}
		for i := range ns[0].arr {
			col := make([]*JNode, len(ns))
			for j, n := range ns {
				col[j] = n.arr[i]
			}
			r, ok := m.mergeJSON(col)
			if !ok {
				return nil, false
			}
			out.arr = append(out.arr, r)
		}
	case jObj:
		for _, n := range ns {
			if len(n.keys) != len(ns[0].keys) {
				return nil, false
			}
		}
		for i := range ns[0].keys {
			kc := make([]Value, len(ns))
			vc := make([]*JNode, len(ns))
			for j, n := range ns {
				kc[j] = n.keys[i]
				vc[j] = n.vals[i]
			}
			mk, ok := m.merge(kc, 0)
			if !ok {
				return nil, false
			}
			mv, ok := m.mergeJSON(vc)
			if !ok {
				return nil, false
			}
			cs := make([]*Term, len(ns))
			anyC := false
			for j, n := range ns {
				cs[j] = n.cond(i)
				if !cs[j].IsTrue() {
					anyC = true
				}
			}
			var mc *Term
			if anyC {
				mc = m.iteTerms(cs)
			}
			out.addKey(mk.(*StrV), mv, mc)
		}
	}
	return out, true
}
