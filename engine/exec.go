package main

// Explorer: stateless depth-first exploration of all feasible paths of one
// harness function (every path is re-executed from the start along the
// recorded decision prefix). Exec: the state of one path.

import (
	"fmt"
	"go/types"
	"os"
	"sort"
	"strings"
	"time"

	"golang.org/x/tools/go/ssa"
)

type decision struct {
	choice  int
	n       int
	checked bool
	kind    string
}

type NondetRec struct {
	Tag   string
	Kind  string // bool,int,choice,string,json,byte
	terms []*Term
	conc  int64  // for choice/range
	json  *JNode // for json
	cap   int
}

type Violation struct {
	Harness string
	Label   string
	Site    string
	Vector  []VecEntry
	Trace   []string
	Sched   []int
	Note    string
	Unsure  bool
}

type VecEntry struct {
	Tag  string      `json:"tag"`
	Kind string      `json:"kind"`
	Val  interface{} `json:"val"`
}

type ReachWitness struct {
	Label  string
	Vector []VecEntry
	Trace  []string
}

type Explorer struct {
	prog     *ssa.Program
	pkg      *ssa.Package
	harness  *ssa.Function
	solver   *Solver
	prefix   []decision
	params   map[string]int
	maxPaths int
	deadline time.Time

	// statistics
	nPaths        int
	nPathsAssert  int
	nInstr        int64
	nBlocks       int64
	nInfeasible   int
	nVerdict      int
	nVerdictUnsat int
	pathSigs      map[string]bool
	funcsEncoded  map[*ssa.Function]int64
	unwindHits    []string

	violations   []*Violation
	reach        map[string]*ReachWitness
	reachCount   map[string]int
	inconclusive []string
	samples      []map[string]interface{}
	verbose      bool
	dumpDir      string
	nDumped      int
	dumpMax      int
	dumpEvery    int
	dumpSeen     int
	maxUnroll    int
	stubsUsed    map[string]bool
	exhausted    bool
	memo         map[string]string
	replayLen    int
	mergeCache   map[*ssa.Function]bool
	noMerge      bool
	eager        bool
	nMergeAttempts  int
	nMergeAbandoned int
	nMerged         int
	violKeys     map[string]bool
	decKinds     map[string]int
}

type pathEnd struct {
	kind string // done, infeasible, violation, inconclusive, abort, panic, deadlock
	msg  string
}

type goPanic struct {
	val   Value
	site  string
	label string
}

type Exec struct {
	x       *Explorer
	pc      []*Term
	depth   int
	nondets []NondetRec
	trace   []string
	sched   []int
	objSeq  int
	symSeq  map[string]int
	globals map[*ssa.Global]*Obj
	threads []*Thread
	cur     *Thread
	aborted bool
	unsure  bool
	// sync primitives state, keyed by pointer key
	mutexes map[string]*mutexState
	onces   map[string]*onceState
	wgs     map[string]*wgState
	atomics     map[string]Value
	timerStates map[string]*timerState
	chanSeq int
	mapSeq  int
	ctxSeq  int
	now     *Term
	timers  []*CtxData
	preemptBudget int
	schedPolicy   int
	assertsSeen   int
	expectPanic   int
	sentinels     map[string]Value
	uuidSeq       int
	footprint     map[int]map[int]bool // thread group -> object ids written (optional)
	liveCtx       []*CtxData
	typeCache     map[string]types.Type
	end           *pathEnd
	mainDone      bool
	memoSeq       int
	pcChecked     int
	local         *localRun
	spins         int
	preemptOff    bool
	streams       []*StreamObj
	lastRead      *StreamObj
	initDone      bool
	mergeDepth    int
	pending       []pendingAssert
	doneCh        chan pathEnd
	expectBlockOK bool
}

func (x *Explorer) newExec() *Exec {
	e := &Exec{x: x, symSeq: map[string]int{}, globals: map[*ssa.Global]*Obj{},
		mutexes: map[string]*mutexState{}, onces: map[string]*onceState{}, wgs: map[string]*wgState{}, atomics: map[string]Value{}, timerStates: map[string]*timerState{},
		sentinels: map[string]Value{}, typeCache: map[string]types.Type{}}
	e.now = IntC(0)
	return e
}

func (e *Exec) unsupported(what string) pathEnd {
	return pathEnd{kind: "inconclusive", msg: "unsupported: " + what}
}

func (e *Exec) fresh(tag string, w int) *Term {
	n := e.symSeq[tag]
	e.symSeq[tag] = n + 1
	return Sym(fmt.Sprintf("%s#%d", tag, n), w)
}

func (e *Exec) assume(c *Term) {
	if c.IsTrue() {
		return
	}
	if c.IsFalse() {
		panic(pathEnd{kind: "infeasible"})
	}
	e.pc = append(e.pc, c)
}

// feasibleNow: is the current path condition satisfiable (memoised per prefix).
func (e *Exec) feasibleNow() bool {
	key, old := e.memoKey()
	if old {
		if r, ok := e.x.memo[key]; ok {
			return r == rSat
		}
	}
	ok := e.feasible(tTrue)
	if ok {
		e.x.memo[key] = rSat
	} else {
		e.x.memo[key] = rUnsat
	}
	return ok
}

// feasible decides pc ∧ c; unknown counts as feasible (and marks the path unsure).
func (e *Exec) feasible(c *Term) bool {
	if c.IsTrue() && len(e.pc) == e.pcChecked {
		return true
	}
	if c.IsFalse() {
		return false
	}
	r, _ := e.x.solver.Check(e.pc, c, nil)
	if r == rUnknown {
		e.unsure = true
		return true
	}
	if r == rSat && c.IsTrue() {
		e.pcChecked = len(e.pc)
	}
	return r == rSat
}

// choose makes an n-way decision. conds[i] (may be nil = true) is the
// constraint of option i. exhaustive: the options cover all cases under pc.
func (e *Exec) choose(kind string, n int, conds []*Term, exhaustive bool) int {
	if e.local != nil {
		return e.localChoose(kind, n, conds, exhaustive)
	}
	x := e.x
	cond := func(i int) *Term {
		if conds == nil || conds[i] == nil {
			return tTrue
		}
		return conds[i]
	}
	if e.depth < len(x.prefix) {
		d := &x.prefix[e.depth]
		if d.n != n || d.kind != kind {
			panic(pathEnd{kind: "inconclusive", msg: fmt.Sprintf("engine: nondeterministic re-execution at decision %d (%s/%d vs %s/%d)", e.depth, d.kind, d.n, kind, n)})
		}
		if !d.checked {
			c := d.choice
			for c < n {
				if e.feasible(cond(c)) {
					break
				}
				c++
			}
			if c >= n {
				d.choice = n - 1
				d.checked = true
				panic(pathEnd{kind: "infeasible"})
			}
			d.choice = c
			d.checked = true
		}
		e.depth++
		e.assume(cond(d.choice))
		return d.choice
	}
	c := 0
	for c < n {
		if exhaustive && c == n-1 && c > 0 {
			// every other option was infeasible and the options are exhaustive
			break
		}
		if e.feasible(cond(c)) {
			break
		}
		c++
	}
	if c >= n {
		panic(pathEnd{kind: "infeasible"})
	}
	x.prefix = append(x.prefix, decision{choice: c, n: n, checked: true, kind: kind})
	if x.decKinds == nil {
		x.decKinds = map[string]int{}
	}
	dk := kind
	if kind == "br" && e.cur != nil && len(e.cur.stack) > 0 {
		dk = "br@" + e.cur.stack[len(e.cur.stack)-1].Name()
	}
	x.decKinds[dk]++
	e.depth++
	e.assume(cond(c))
	return c
}

// branch decides a Boolean condition.
func (e *Exec) branch(c *Term) bool {
	if c.IsConst() {
		return c.val == 1
	}
	return e.choose("br", 2, []*Term{c, Not(c)}, true) == 0
}

func (x *Explorer) backtrack() bool {
	for len(x.prefix) > 0 {
		d := &x.prefix[len(x.prefix)-1]
		if d.choice+1 < d.n {
			d.choice++
			d.checked = false
			return true
		}
		x.prefix = x.prefix[:len(x.prefix)-1]
	}
	return false
}

func (e *Exec) siteOf(th *Thread) string {
	var parts []string
	for i := len(th.stack) - 1; i >= 0 && len(parts) < 4; i-- {
		f := th.stack[i]
		name := f.RelString(e.x.pkg.Pkg)
		parts = append(parts, name)
	}
	return strings.Join(parts, "<-")
}

// modelVector builds the replay vector from a model.
func (e *Exec) wantTerms() []*Term {
	var want []*Term
	for _, n := range e.nondets {
		want = append(want, n.terms...)
		if n.json != nil {
			n.json.collectTerms(&want)
		}
	}
	return want
}

func (e *Exec) buildVector(model map[*Term]uint64) []VecEntry {
	get := func(t *Term) uint64 {
		if t.IsConst() {
			return t.val
		}
		return model[t]
	}
	var vec []VecEntry
	for _, n := range e.nondets {
		switch n.Kind {
		case "bool":
			vec = append(vec, VecEntry{n.Tag, "bool", get(n.terms[0]) == 1})
		case "int":
			vec = append(vec, VecEntry{n.Tag, "int", int64(get(n.terms[0]))})
		case "byte":
			vec = append(vec, VecEntry{n.Tag, "int", int64(get(n.terms[0]))})
		case "choice":
			vec = append(vec, VecEntry{n.Tag, "int", n.conc})
		case "string":
			ln := int(get(n.terms[0]))
			if ln > n.cap {
				ln = n.cap
			}
			buf := make([]byte, ln)
			for i := 0; i < ln; i++ {
				buf[i] = byte(get(n.terms[1+i]))
			}
			vec = append(vec, VecEntry{n.Tag, "string", string(buf)})
		case "json":
			vec = append(vec, VecEntry{n.Tag, "string", n.json.render(get)})
		}
	}
	return vec
}

func (e *Exec) recordViolation(label, site string, model map[*Term]uint64, note string) {
	v := &Violation{Harness: e.x.harness.Name(), Label: label, Site: site, Vector: e.buildVector(model),
		Trace: append([]string{}, e.trace...), Sched: append([]int{}, e.sched...), Note: note, Unsure: e.unsure}
	e.x.violations = append(e.x.violations, v)
	if e.x.verbose {
		fmt.Fprintf(os.Stderr, "  violation candidate: %s @ %s\n", label, site)
	}
}

type pendingAssert struct {
	label string
	cond  *Term
	site  string
	key   string
	trace []string
}

// flushPending discharges the assertions collected on this path with one
// query (PC ∧ some assertion fails). Sound because every path flushes at its
// end and before every assumption: a failing input follows some path to its end.
func (e *Exec) flushPending() {
	for len(e.pending) > 0 {
		var bads []*Term
		want := e.wantTerms()
		for _, p := range e.pending {
			bads = append(bads, Not(p.cond))
			want = append(want, p.cond)
		}
		bad := Or(bads...)
		r, model := e.x.solver.Check(e.pc, bad, want)
		e.x.dumpVerdict(e.pc, bad, r)
		switch r {
		case rUnsat:
			e.x.nVerdict += len(e.pending)
			e.x.nVerdictUnsat += len(e.pending)
			e.pending = nil
			return
		case rUnknown:
			e.x.nVerdict += len(e.pending)
			e.x.inconclusive = append(e.x.inconclusive, fmt.Sprintf("solver unknown on verdict query %q", e.pending[0].label))
			e.pending = nil
			return
		}
		idx := -1
		for i, p := range e.pending {
			v := uint64(1)
			if p.cond.IsConst() {
				v = p.cond.val
			} else {
				v = model[p.cond]
			}
			if v == 0 {
				idx = i
				break
			}
		}
		if idx < 0 {
			e.x.inconclusive = append(e.x.inconclusive, "engine: sat verdict without a failing assertion in the model")
			e.pending = nil
			return
		}
		p := e.pending[idx]
		if os.Getenv("GOSMT_DEBUG") != "" {
			fmt.Fprintf(os.Stderr, "  pending assertion %s fails: cond=%s\n", p.label, p.cond.String())
		}
		e.x.nVerdict++
		if !e.x.violKeys[p.key] {
			e.x.violKeys[p.key] = true
			saved := e.trace
			e.trace = append(append([]string{}, p.trace...), "F:"+p.label)
			e.recordViolation(p.label, p.site, model, "")
			e.trace = saved
		}
		e.pending = append(append([]pendingAssert{}, e.pending[:idx]...), e.pending[idx+1:]...)
		e.assume(p.cond)
		if !e.feasible(tTrue) {
			e.pending = nil
			return
		}
	}
}

// memoKey identifies a solver question by the decision prefix that leads to it
// and its ordinal on the path; questions inside the replayed prefix were
// already asked on an earlier path with the identical path condition.
func (e *Exec) memoKey() (string, bool) {
	e.memoSeq++
	var sb strings.Builder
	for i := 0; i < e.depth; i++ {
		fmt.Fprintf(&sb, "%d.", e.x.prefix[i].choice)
	}
	fmt.Fprintf(&sb, "#%d", e.memoSeq)
	return sb.String(), e.depth < e.x.replayLen
}

// verdict checks pc ∧ bad. If satisfiable a violation candidate is recorded.
// Returns true when the bad condition is reachable.
func (e *Exec) verdict(label, site string, bad *Term) bool {
	key, old := e.memoKey()
	if old {
		if r, ok := e.x.memo[key]; ok {
			return r == rSat
		}
	}
	res := e.verdict1(label, site, bad)
	if res {
		e.x.memo[key] = rSat
	} else {
		e.x.memo[key] = rUnsat
	}
	return res
}

func (e *Exec) verdict1(label, site string, bad *Term) bool {
	e.x.nVerdict++
	if bad.IsFalse() {
		e.x.nVerdictUnsat++
		return false
	}
	r, model := e.x.solver.Check(e.pc, bad, e.wantTerms())
	e.x.dumpVerdict(e.pc, bad, r)
	switch r {
	case rUnsat:
		e.x.nVerdictUnsat++
		return false
	case rUnknown:
		e.x.inconclusive = append(e.x.inconclusive, fmt.Sprintf("solver unknown on verdict query %q", label))
		return false
	}
	e.recordViolation(label, site, model, "")
	return true
}

// dumpVerdict writes a verdict query as a standalone script (for the cross-solver pass); the answer the
// primary solver gave is recorded in the first line. Queries are sampled: every dumpEvery-th one.
func (x *Explorer) dumpVerdict(pc []*Term, bad *Term, res string) {
	if x.dumpDir == "" || x.nDumped >= x.dumpMax {
		return
	}
	x.dumpSeen++
	if x.dumpSeen%x.dumpEvery != 1 && x.dumpEvery > 1 {
		return
	}
	x.nDumped++
	os.WriteFile(fmt.Sprintf("%s/q%04d.smt2", x.dumpDir, x.nDumped), []byte("; expect "+res+"\n"+DumpQuery(pc, bad)), 0o644)
}

// concretePanic: a panic reached on a feasible path with concrete cause.
func (e *Exec) raise(th *Thread, label string, val Value) {
	site := e.siteOf(th)
	panic(goPanic{val: val, site: site, label: label})
}

func (e *Exec) reachMark(label string) {
	e.trace = append(e.trace, "R:"+label)
	x := e.x
	if e.depth < x.replayLen {
		return
	}
	x.reachCount[label]++
	if _, ok := x.reach[label]; ok {
		return
	}
	r, model := x.solver.Check(e.pc, nil, e.wantTerms())
	if r != rSat {
		return
	}
	x.reach[label] = &ReachWitness{Label: label, Vector: e.buildVector(model), Trace: append([]string{}, e.trace...)}
}

// runPath executes one path. Returns its end.
func (x *Explorer) runPath() (end pathEnd) {
	e := x.newExec()
	x.replayLen = len(x.prefix)
	e.preemptBudget = x.params["P"]
	e.preemptOff = x.params["Pgate"] == 1
	e.schedPolicy = x.params["sched"]
	done := make(chan pathEnd, 1)
	e.doneCh = done
	main := e.newThread("main")
	go func() {
		defer e.threadExit(main, done)
		<-main.resume
		e.cur = main
		e.initPackage(main)
		e.callFn(main, x.harness, nil)
		e.mainDone = true
		main.state = tsDone
		// let the remaining threads run to quiescence
		e.drain(main)
	}()
	main.resume <- struct{}{}
	end = <-done
	// unwind every parked thread
	e.aborted = true
	for _, t := range e.threads {
		select {
		case t.resume <- struct{}{}:
		default:
		}
	}
	for _, t := range e.threads {
		<-t.exited
	}
	if end.kind != "infeasible" {
		e.flushPending()
	}
	x.nPaths++
	if e.assertsSeen > 0 {
		x.nPathsAssert++
	}
	sig := strings.Join(e.trace, ";")
	if e.assertsSeen > 0 {
		x.pathSigs[sig] = true
	}
	if len(x.samples) < 6 && end.kind == "done" && e.assertsSeen > 0 && x.nPaths%7 == 1 {
		r, model := x.solver.Check(e.pc, nil, e.wantTerms())
		if r == rSat {
			x.samples = append(x.samples, map[string]interface{}{"path": x.nPaths, "inputs": e.buildVector(model), "trace": e.trace})
		}
	}
	return end
}

func (x *Explorer) Explore() {
	x.reach = map[string]*ReachWitness{}
	x.reachCount = map[string]int{}
	x.pathSigs = map[string]bool{}
	x.funcsEncoded = map[*ssa.Function]int64{}
	x.stubsUsed = map[string]bool{}
	x.memo = map[string]string{}
	x.mergeCache = map[*ssa.Function]bool{}
	x.violKeys = map[string]bool{}
	for {
		end := x.runPath()
		switch end.kind {
		case "inconclusive":
			x.inconclusive = append(x.inconclusive, end.msg)
		case "infeasible":
			x.nInfeasible++
		}
		if x.verbose {
			fmt.Fprintf(os.Stderr, "path %d: %s %s (decisions %d)\n", x.nPaths, end.kind, end.msg, len(x.prefix))
		}
		if len(x.inconclusive) > 20 {
			break
		}
		if x.maxPaths > 0 && x.nPaths >= x.maxPaths {
			x.inconclusive = append(x.inconclusive, fmt.Sprintf("path budget %d exhausted", x.maxPaths))
			break
		}
		if !x.deadline.IsZero() && time.Now().After(x.deadline) {
			x.inconclusive = append(x.inconclusive, "time budget exhausted")
			break
		}
		if !x.backtrack() {
			x.exhausted = true
			break
		}
	}
}

func (x *Explorer) encodedList() []map[string]interface{} {
	var out []map[string]interface{}
	for f, n := range x.funcsEncoded {
		if f.Pkg == nil || f.Pkg != x.pkg {
			if f.Pkg == nil || !strings.Contains(f.Pkg.Pkg.Path(), "errgroup") && f.Pkg.Pkg.Path() != "io" {
				continue
			}
		}
		if strings.HasPrefix(f.Name(), "vh") || strings.HasPrefix(f.Name(), "Harness") || strings.HasPrefix(f.Name(), "nondet") {
			continue
		}
		ni := 0
		for _, b := range f.Blocks {
			ni += len(b.Instrs)
		}
		pos := x.prog.Fset.Position(f.Pos())
		out = append(out, map[string]interface{}{"func": f.String(), "pos": fmt.Sprintf("%s:%d", shortFile(pos.Filename), pos.Line), "ssa_instrs": ni, "executions": n})
	}
	sort.Slice(out, func(i, j int) bool { return out[i]["func"].(string) < out[j]["func"].(string) })
	return out
}

func shortFile(p string) string {
	if i := strings.LastIndex(p, "/"); i >= 0 {
		return p[i+1:]
	}
	return p
}
