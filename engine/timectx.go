package main

// Models of package time (one symbolic clock) and package context.

import (
	"fmt"
	"go/types"
	"os"
)

func (e *Exec) clockRead() *Term {
	e.abandon("clock read")
	if e.x.params["cclock"] == 1 && e.now.IsConst() {
		// concrete clock (harness parameter): every reading is one millisecond after the previous instant;
		// timers then fire in the order of their concrete deadlines. Used where timing is not the subject.
		e.now = IntC(int64(e.now.val) + 1000000)
		return e.now
	}
	t := e.fresh("clock", 64)
	e.assume(BVCmp("bvsle", e.now, t))
	e.assume(BVCmp("bvslt", IntC(0), t))
	e.assume(BVCmp("bvslt", t, IntC(1<<61)))
	e.now = t
	return t
}

func (e *Exec) ctxIface(c *CtxData) IfaceV {
	t := types.NewPointer(e.lookupType("context", "cancelCtx"))
	return IfaceV{t: t, v: PtrV{obj: e.newObj(c, nil, "ctx")}}
}

func (e *Exec) ctxOf(v Value) (*CtxData, IfaceV) {
	iv, _ := v.(IfaceV)
	if iv.t == nil {
		return nil, iv
	}
	if p, ok := iv.v.(PtrV); ok && p.obj != nil {
		if d, ok := p.obj.val.(*CtxData); ok {
			return d, iv
		}
	}
	return nil, iv
}

// newCtx derives a context from parent (engine context or foreign implementation).
func (e *Exec) newCtx(th *Thread, parent Value) *CtxData {
	e.ctxSeq++
	c := &CtxData{id: e.ctxSeq, err: IfaceV{}}
	pd, piv := e.ctxOf(parent)
	if pd != nil {
		c.parent = pd
		pd.children = append(pd.children, c)
	} else if piv.t != nil {
		c.key = nil
		c.foreign = &piv
	} else {
		e.raise(th, "explicit:cannot create context from nil parent", nil)
	}
	return c
}

func (c *CtxData) cancelAncestor() *CtxData {
	for x := c; x != nil; x = x.parent {
		if x.cancelable {
			return x
		}
	}
	return nil
}

func (c *CtxData) foreignRoot() *IfaceV {
	for x := c; x != nil; x = x.parent {
		if x.foreign != nil {
			return x.foreign
		}
	}
	return nil
}

func (e *Exec) cancelCtx(th *Thread, c *CtxData, err Value) {
	if c.cancelable {
		if iv := c.err.(IfaceV); iv.t != nil {
			return
		}
		c.err = err
		if c.done != nil && !c.done.closed {
			e.closeChan(th, c.done)
		}
	}
	for _, ch := range c.children {
		e.cancelCtx(th, ch, err)
	}
}

func (e *Exec) methodByName(t types.Type, name string) *types.Func {
	ms := e.x.prog.MethodSets.MethodSet(t)
	for i := 0; i < ms.Len(); i++ {
		if ms.At(i).Obj().Name() == name {
			return ms.At(i).Obj().(*types.Func)
		}
	}
	return nil
}

func (e *Exec) ctxMethod(th *Thread, c *CtxData, name string, args []Value) Value {
	switch name {
	case "Done":
		if a := c.cancelAncestor(); a != nil {
			if a.done == nil {
				ct := types.NewChan(types.SendRecv, types.NewStruct(nil, nil))
				a.done = e.makeChan(ct, 0).c
				if iv := a.err.(IfaceV); iv.t != nil {
					a.done.closed = true
				}
			}
			return ChanV{c: a.done}
		}
		if f := c.foreignRoot(); f != nil {
			return e.invoke(th, *f, e.methodByName(f.t, "Done"), nil)
		}
		return ChanV{}
	case "Err":
		if a := c.cancelAncestor(); a != nil {
			return a.err
		}
		if f := c.foreignRoot(); f != nil {
			return e.invoke(th, *f, e.methodByName(f.t, "Err"), nil)
		}
		return IfaceV{}
	case "Deadline":
		for x := c; x != nil; x = x.parent {
			if x.hasDeadline {
				return TupleV{TimeV{t: x.deadline}, tTrue}
			}
			if x.foreign != nil {
				return e.invoke(th, *x.foreign, e.methodByName(x.foreign.t, "Deadline"), nil)
			}
		}
		return TupleV{TimeV{t: IntC(0)}, tFalse}
	case "Value":
		for x := c; x != nil; x = x.parent {
			if x.key != nil {
				if e.branch(e.eqNil(x.key, args[0])) {
					return x.val
				}
			}
			if x.foreign != nil {
				return e.invoke(th, *x.foreign, e.methodByName(x.foreign.t, "Value"), args)
			}
		}
		return IfaceV{}
	}
	panic(e.unsupported("context method " + name))
}

// fireTimer: called when no thread can run. Advances the clock to an armed
// deadline and cancels that context. Returns false when no timer is armed.
func (e *Exec) fireTimer() bool {
	var armed []*CtxData
	for _, c := range e.timers {
		if iv := c.err.(IfaceV); iv.t == nil {
			armed = append(armed, c)
		}
	}
	if len(armed) == 0 {
		return false
	}
	k := 0
	if len(armed) > 1 {
		conds := make([]*Term, len(armed))
		for i, c := range armed {
			var cs []*Term
			for j, o := range armed {
				if j < i {
					cs = append(cs, BVCmp("bvslt", c.deadline, o.deadline))
				} else if j > i {
					cs = append(cs, BVCmp("bvsle", c.deadline, o.deadline))
				}
			}
			conds[i] = And(cs...)
		}
		k = e.choose("timer", len(armed), conds, true)
	}
	c := armed[k]
	if os.Getenv("GOSMT_DEBUG") != "" {
		fmt.Fprintf(os.Stderr, "  timer fires (ctx %d of %d armed); threads:\n", c.id, len(armed))
		for _, t := range e.threads {
			fmt.Fprintf(os.Stderr, "    thread %d %s state=%d blockedOn=%s top=%s\n", t.id, t.name, t.state, t.blockedOn, e.siteOf(t))
		}
	}
	e.trace = append(e.trace, "T:timer-fired")
	later := BVCmp("bvslt", e.now, c.deadline)
	e.now = Ite(later, c.deadline, e.now)
	e.cancelCtx(e.cur, c, e.sentinel("context.DeadlineExceeded"))
	return true
}

func registerTimeCtx() {
	reg := func(name string, f intrinsic) { intrinsics[name] = f }
	reg("time.Now", func(e *Exec, th *Thread, a []Value) Value { return TimeV{t: e.clockRead()} })
	reg("(time.Time).Add", func(e *Exec, th *Thread, a []Value) Value {
		return TimeV{t: BVBin("bvadd", a[0].(TimeV).t, a[1].(*Term))}
	})
	reg("(time.Time).Sub", func(e *Exec, th *Thread, a []Value) Value {
		return BVBin("bvsub", a[0].(TimeV).t, a[1].(TimeV).t)
	})
	reg("(time.Time).After", func(e *Exec, th *Thread, a []Value) Value {
		return BVCmp("bvslt", a[1].(TimeV).t, a[0].(TimeV).t)
	})
	reg("(time.Time).Before", func(e *Exec, th *Thread, a []Value) Value {
		return BVCmp("bvslt", a[0].(TimeV).t, a[1].(TimeV).t)
	})
	reg("(time.Time).IsZero", func(e *Exec, th *Thread, a []Value) Value {
		return Eq(a[0].(TimeV).t, IntC(0))
	})
	reg("(time.Time).Equal", func(e *Exec, th *Thread, a []Value) Value {
		return Eq(a[0].(TimeV).t, a[1].(TimeV).t)
	})
	reg("H.vTimeOf", func(e *Exec, th *Thread, a []Value) Value { return TimeV{t: a[0].(*Term)} })
	reg("H.vInstant", func(e *Exec, th *Thread, a []Value) Value { return a[0].(TimeV).t })

	reg("context.Background", func(e *Exec, th *Thread, a []Value) Value {
		e.ctxSeq++
		return e.ctxIface(&CtxData{id: e.ctxSeq, err: IfaceV{}})
	})
	intrinsics["context.TODO"] = intrinsics["context.Background"]
	reg("context.WithCancel", func(e *Exec, th *Thread, a []Value) Value {
		c := e.newCtx(th, a[0])
		c.cancelable = true
		e.inheritCancel(th, c)
		cancel := &FuncV{name: "cancel", intr: func(e *Exec, th *Thread, _ []Value) Value {
			e.preemptPoint(th)
			e.cancelCtx(th, c, e.sentinel("context.Canceled"))
			return nil
		}}
		return TupleV{e.ctxIface(c), cancel}
	})
	withDeadline := func(e *Exec, th *Thread, parent Value, d *Term) Value {
		c := e.newCtx(th, parent)
		c.cancelable = true
		c.hasDeadline = true
		c.deadline = d
		// an earlier parent deadline wins
		for x := c.parent; x != nil; x = x.parent {
			if x.hasDeadline {
				c.deadline = Ite(BVCmp("bvslt", x.deadline, d), x.deadline, d)
				break
			}
		}
		e.inheritCancel(th, c)
		e.timers = append(e.timers, c)
		cancel := &FuncV{name: "cancel", intr: func(e *Exec, th *Thread, _ []Value) Value {
			e.cancelCtx(th, c, e.sentinel("context.Canceled"))
			return nil
		}}
		return TupleV{e.ctxIface(c), cancel}
	}
	reg("context.WithDeadline", func(e *Exec, th *Thread, a []Value) Value {
		return withDeadline(e, th, a[0], a[1].(TimeV).t)
	})
	reg("context.WithTimeout", func(e *Exec, th *Thread, a []Value) Value {
		now := e.clockRead()
		return withDeadline(e, th, a[0], BVBin("bvadd", now, a[1].(*Term)))
	})
	// time.After(d): a channel that becomes ready once the clock has passed now+d (modelled as closed at that
	// instant: the value received is the zero time; lime-go never looks at it)
	reg("time.After", func(e *Exec, th *Thread, a []Value) Value {
		now := e.clockRead()
		e.ctxSeq++
		c := &CtxData{id: e.ctxSeq, err: IfaceV{}, cancelable: true, hasDeadline: true, deadline: BVBin("bvadd", now, a[0].(*Term))}
		ct := types.NewChan(types.RecvOnly, e.lookupType("time", "Time"))
		c.done = e.makeChan(ct, 0).c
		e.timers = append(e.timers, c)
		return ChanV{c: c.done}
	})
	reg("context.WithValue", func(e *Exec, th *Thread, a []Value) Value {
		c := e.newCtx(th, a[0])
		c.key = a[1]
		c.val = a[2]
		return e.ctxIface(c)
	})
}

// inheritCancel: a context derived from an already cancelled ancestor is born cancelled.
func (e *Exec) inheritCancel(th *Thread, c *CtxData) {
	if c.parent == nil {
		return
	}
	if a := c.parent.cancelAncestor(); a != nil {
		if iv := a.err.(IfaceV); iv.t != nil {
			c.err = a.err
		}
	}
}
