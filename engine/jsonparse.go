package main

import (
	"bytes"
	"encoding/json"
	"fmt"
	"strconv"
)

// parseJSONText turns a concrete JSON text into a closed JSON tree (key order kept).
func parseJSONText(s string) (*JNode, error) {
	dec := json.NewDecoder(bytes.NewReader([]byte(s)))
	dec.UseNumber()
	n, err := parseJSONValue(dec)
	if err != nil {
		return nil, err
	}
	if dec.More() {
		return nil, fmt.Errorf("trailing data")
	}
	return n, nil
}

func parseJSONValue(dec *json.Decoder) (*JNode, error) {
	tok, err := dec.Token()
	if err != nil {
		return nil, err
	}
	switch t := tok.(type) {
	case nil:
		return &JNode{kind: jNull}, nil
	case bool:
		return &JNode{kind: jBool, b: BoolC(t)}, nil
	case json.Number:
		i, err := strconv.ParseInt(string(t), 10, 64)
		if err != nil {
			return &JNode{kind: jNum, tok: string(t)}, nil
		}
		return &JNode{kind: jNum, num: IntC(i)}, nil
	case string:
		return &JNode{kind: jStr, s: ConcStr(t)}, nil
	case json.Delim:
		switch t {
		case '[':
			n := &JNode{kind: jArr}
			for dec.More() {
				c, err := parseJSONValue(dec)
				if err != nil {
					return nil, err
				}
				n.arr = append(n.arr, c)
			}
			if _, err := dec.Token(); err != nil {
				return nil, err
			}
			return n, nil
		case '{':
			n := &JNode{kind: jObj}
			for dec.More() {
				kt, err := dec.Token()
				if err != nil {
					return nil, err
				}
				k, ok := kt.(string)
				if !ok {
					return nil, fmt.Errorf("bad key")
				}
				c, err := parseJSONValue(dec)
				if err != nil {
					return nil, err
				}
				n.addKey(ConcStr(k), c, nil)
			}
			if _, err := dec.Token(); err != nil {
				return nil, err
			}
			return n, nil
		}
	}
	return nil, fmt.Errorf("unexpected token %v", tok)
}
