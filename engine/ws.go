package main

// Model of github.com/gorilla/websocket.Conn at the level of the methods lime-go calls
// (WriteJSON, ReadJSON, SetReadDeadline, SetWriteDeadline, Close, UnderlyingConn, addresses),
// over a net.Conn supplied by the harness. It follows gorilla v1.4.2:
//   - one message = one Write of the frame on the connection, armed with the write deadline that was
//     *stored* when the write starts (SetWriteDeadline only stores; it does not touch the connection);
//   - a failed write, and any failed read, is kept and returned by every later call of that direction;
//   - SetReadDeadline goes straight to the connection;
//   - ReadJSON hands a message over when its whole frame has arrived; a message that does not decode
//     fails that call only;
//   - two writers at once: panic("concurrent write to websocket connection").

type WSData struct {
	inner    IfaceV
	wdl      Value // time.Time stored by SetWriteDeadline
	writeErr Value
	writing  bool
	dec      *DecData
}

func (e *Exec) wsOf(th *Thread, v Value) *WSData {
	p, ok := v.(PtrV)
	if !ok || p.obj == nil {
		e.raise(th, "nil-dereference", nil)
	}
	d, _ := p.obj.val.(*WSData)
	if d == nil {
		e.raise(th, "nil-dereference", nil)
	}
	return d
}

func registerWS() {
	const recv = "(*github.com/gorilla/websocket.Conn)."
	intrinsics["H.vWSConn"] = func(e *Exec, th *Thread, a []Value) Value {
		inner, _ := a[0].(IfaceV)
		if inner.t == nil {
			e.raise(th, "nil-dereference", nil)
		}
		d := &WSData{inner: inner, wdl: TimeV{t: IntC(0)}, writeErr: IfaceV{}}
		d.dec = &DecData{r: inner, total: IntC(0), err: IfaceV{}}
		return PtrV{obj: e.newObj(d, nil, "websocket.Conn")}
	}
	intrinsics[recv+"WriteJSON"] = func(e *Exec, th *Thread, a []Value) Value {
		d := e.wsOf(th, a[0])
		if !isNilErr(d.writeErr) {
			return d.writeErr
		}
		iv := a[1].(IfaceV)
		var node *JNode
		if iv.t == nil {
			node = &JNode{kind: jNull}
		} else {
			n, err := e.marshal(th, iv.v, iv.t, nil, 0)
			if !isNilErr(err) {
				return err
			}
			node = n
		}
		frame := &BytesV{json: node}
		e.jsonLen(frame)
		if d.writing {
			e.raise(th, "explicit:concurrent write to websocket connection", nil)
		}
		d.writing = true
		e.invoke(th, d.inner, e.methodByName(d.inner.t, "SetWriteDeadline"), []Value{d.wdl})
		r := e.invoke(th, d.inner, e.methodByName(d.inner.t, "Write"), []Value{frame}).(TupleV)
		d.writing = false
		if !isNilErr(r[1]) {
			d.writeErr = r[1]
			return r[1]
		}
		return IfaceV{}
	}
	intrinsics[recv+"ReadJSON"] = func(e *Exec, th *Thread, a []Value) Value {
		d := e.wsOf(th, a[0])
		return e.decoderDecode(th, d.dec, a[1].(IfaceV), true)
	}
	intrinsics[recv+"SetWriteDeadline"] = func(e *Exec, th *Thread, a []Value) Value {
		d := e.wsOf(th, a[0])
		d.wdl = a[1]
		return IfaceV{}
	}
	for _, name := range []string{"SetReadDeadline", "Close", "LocalAddr", "RemoteAddr"} {
		name := name
		intrinsics[recv+name] = func(e *Exec, th *Thread, a []Value) Value {
			d := e.wsOf(th, a[0])
			return e.invoke(th, d.inner, e.methodByName(d.inner.t, name), a[1:])
		}
	}
	intrinsics[recv+"UnderlyingConn"] = func(e *Exec, th *Thread, a []Value) Value {
		return e.wsOf(th, a[0]).inner
	}
}
